"""C01 — matrix-vector products in every storage format (DESIGN §4 C01).

Static rules over the resolved program (clang facts of tu/c01_apply.cpp, which takes the address of
every apply/apply_transposed overload of every LAFEM matrix container):

  clause 1  E0.instantiable      every curated overload type-checks (and every declared overload is curated)
  clause 2  E1.role / E1.dispatch / E1.guard
                                 who-passes-what at the 36 Arch::Apply call sites, in the dispatch wrappers,
                                 and in the dimension guards
  clause 3  E7.exit-defines-r / E7.early-out / E7.alpha-guard
                                 every exit defines r, early-outs have the form of their arity and a
                                 zero-product condition, kernels dividing by alpha are never reached with alpha=0
  clause 6  C6.inputs-const / C6.view-alias / C6.kernel-const / C6.early-out-copy (early-outs copy y by value, never re-seat r onto y)
  clause 7  E4.parity / E4.matvec / E4.blocks / E4.view-perspective   (meta matrices)
            E4.view-nonempty     positivity precondition of the range-view constructor at its call sites (empty sub-blocks)
  clause 4  E2.kernel-*          light index-kind rules on the *_generic kernels
  banded    E2.banded-interval   band helpers and all consumers (generic + FEAT_UNROLL_BANDED unrolled path) agree on one half-open row-interval convention
  aliasing  E5.alias-safe        r may alias y: no read of y after a write to r unless r != y was tested (CFG, param-atom path sensitive)

Keys are source-level (class template, variant, method, operand kinds): instantiations of the same
overload are aggregated into one obligation (the detail names the failing instantiation).
"""
import os
import re

import featlib
from featlib import Check, walk, render, is_call, rel, children
from norm_c01 import (InlinedFunction, CondNF, Flow, T, F, f_atom, f_not, f_and, f_or, f_atoms, f_sat, decide, TooManyAtoms)

LAFEM = "kernel/lafem/"
DRIVER = "tu/c01_apply.cpp"

SCALAR = ("SparseMatrixCSR", "SparseMatrixBCSR", "SparseMatrixCSCR", "SparseMatrixBanded", "DenseMatrix")
BLOCKED = ("SparseMatrixBCSR",)

# block structure of the meta containers: accessor -> (block row, block column); number of block rows (L side)
# and block columns (R side).  From the class definitions (saddle_point_matrix.hpp: "A B / D 0"; tuple_matrix.hpp:
# a TupleMatrix is a column of TupleMatrixRows; power_*: Row = 1 x n, Col = n x 1, Diag = n x n diagonal, Full wraps
# PowerColMatrix<PowerRowMatrix>); first() is index 0, rest() is "everything after index 0".
STRUCT = {
    "SaddlePointMatrix": ({"block_a": (0, 0), "block_b": (0, 1), "block_d": (1, 0)}, 2, 2, "at"),
    "TupleDiagMatrix": ({"first": (0, 0), "rest": (1, 1)}, 2, 2, "fr"),
    "PowerDiagMatrix": ({"first": (0, 0), "rest": (1, 1)}, 2, 2, "fr"),
    "TupleMatrixRow": ({"first": (0, 0), "rest": (0, 1)}, 1, 2, "fr"),
    "PowerRowMatrix": ({"first": (0, 0), "rest": (0, 1)}, 1, 2, "fr"),
    "TupleMatrix": ({"first": (0, 0), "rest": (1, 0)}, 2, 1, "fr"),
    "PowerColMatrix": ({"first": (0, 0), "rest": (1, 0)}, 2, 1, "fr"),
    "PowerFullMatrix": ({"_container": (0, 0)}, 1, 1, "fr"),
}
META = tuple(STRUCT)

# E1 role table (DESIGN Appendix A.1): callee slot (declared parameter name) -> accessor of *this
THIS_SLOTS = {
    "val": ("val", "elements"),           # DenseMatrix stores its values in elements()
    "col_ind": ("col_ind",), "row_ptr": ("row_ptr",), "row_numbers": ("row_numbers",), "offsets": ("offsets",),
    "used_rows": ("used_rows",), "num_of_offsets": ("num_of_offsets",),
    "rows": ("rows",), "columns": ("columns",), "used_elements": ("used_elements",),
}
EXTENT_SLOTS = ("rows", "columns", "used_elements", "used_rows", "num_of_offsets")
ALPHA_SLOTS = ("a", "alpha")
BETA_SLOTS = ("b", "beta")


# --------------------------------------------------------------------------------------------------
# small helpers
# --------------------------------------------------------------------------------------------------

def split_targs(s):
    """top-level template arguments of 'X<a, b<c, d>, e>' -> ['a', 'b<c, d>', 'e']"""
    i = s.find("<")
    if i < 0 or not s.endswith(">"):
        return []
    out, depth, cur = [], 0, ""
    for ch in s[i + 1:-1]:
        if ch == "<":
            depth += 1
        elif ch == ">":
            depth -= 1
        if ch == "," and depth == 0:
            out.append(cur.strip())
            cur = ""
        else:
            cur += ch
    if cur.strip():
        out.append(cur.strip())
    return out


def tmpl(cls):
    return cls.split("<", 1)[0].rsplit("::", 1)[-1]


def variant(cls):
    """'[n]' for the recursive case of a Tuple*/Power{Diag,Row,Col} class, '[1]' for the one-element specialisation"""
    t = tmpl(cls)
    a = split_targs(cls)
    if t in ("TupleDiagMatrix", "TupleMatrixRow", "TupleMatrix"):
        return "[1]" if len(a) == 1 else "[n]"
    if t in ("PowerDiagMatrix", "PowerRowMatrix", "PowerColMatrix"):
        return "[1]" if a and a[-1] == "1" else "[n]"
    return ""


def kind_of_type(t):
    t = t.replace("FEAT::LAFEM::", "").strip()
    m = re.search(r"(?:^|::|\s)VectorType([LR]) &$", t)
    if m:
        return "V" + m.group(1)
    c = t[6:] if t.startswith("const ") else t
    if c.startswith("DenseVectorBlocked<"):
        return "DVB"
    if c.startswith("DenseVector<"):
        return "DV"
    if c.startswith(("TupleVector<", "PowerVector<")):
        return "MV"
    if "&" not in t and "*" not in t:
        return "a"
    return "?"


def fkey(f):
    return "%s%s::%s(%s)" % (tmpl(f.cls), variant(f.cls), f.name, ",".join(kind_of_type(f.type(p["t"])) for p in f.params))


def persp(call):
    m = re.search(r"<FEAT::LAFEM::Perspective::(\w+)>$", call.get("cfull", "") or "")
    return m.group(1) if m else "native"


_line_cache = {}


def display_file(f):
    """the plugin reports out-of-class member template definitions with the file of the in-class declaration;
    for reports use the sibling *_generic.hpp when the reported line there names the function"""
    fl = f.file
    if fl.endswith("/arch/apply.hpp") and f.name and (f.name.endswith("_generic") or "ApplyBanded" in f.qn):
        alt = fl[:-4] + "_generic.hpp"
        try:
            if alt not in _line_cache:
                _line_cache[alt] = open(alt, errors="replace").read().splitlines()
            lines = _line_cache[alt]
            if any(f.name in l for l in lines[max(0, f.line - 2):f.line + 1]):
                return alt
        except OSError:
            pass
    return fl


class Agg:
    """aggregates obligations of all instantiations of one source-level instance into one ck.ob"""

    def __init__(self, ck):
        self.ck = ck
        self.d = {}
        self.order = []

    def add(self, rule, key, ok, detail, file=None, line=None, inst=None, trivial=False):
        k = (rule, key)
        e = self.d.get(k)
        if e is None:
            e = self.d[k] = {"n": 0, "bad": [], "good": None, "file": file, "line": line, "trivial": True}
            self.order.append(k)
        e["n"] += 1
        if not trivial:
            e["trivial"] = False
        if ok:
            if e["good"] is None:
                e["good"] = detail
        else:
            if not e["bad"]:
                e["file"], e["line"] = file, line
            e["bad"].append((detail, inst))

    def flush(self):
        for (rule, key) in self.order:
            e = self.d[(rule, key)]
            if e["bad"]:
                d0, i0 = e["bad"][0]
                insts = sorted({i for _, i in e["bad"] if i})
                detail = "%s [%d of %d instantiation(s) fail%s]" % (d0, len(e["bad"]), e["n"], (": " + "; ".join(insts[:3])) if insts else "")
                self.ck.ob(rule, key, False, detail, e["file"], e["line"], trivial=e["trivial"])
            else:
                self.ck.ob(rule, key, True, "%s [%d instantiation(s)]" % (e["good"] or "", e["n"]), e["file"], e["line"], trivial=e["trivial"])


class FnInfo:
    """per-function resolution helpers: const locals are looked through, parameters are identified by position"""

    def __init__(self, fn):
        self.fn = fn
        self.vars = {}
        self.assigned = set()
        self.parent = {}
        for n in fn.nodes():
            for c in children(n):
                self.parent[id(c)] = n
            k = n.get("k")
            if k == "Decl":
                for v in n.get("vars", []):
                    self.vars[v["d"]] = v
            elif k == "Assign":
                l = n.get("lhs")
                if l and l.get("k") == "Ref":
                    self.assigned.add(l.get("d"))
            elif k == "Un" and n.get("op") in ("++", "--"):
                e = n.get("e")
                if e and e.get("k") == "Ref":
                    self.assigned.add(e.get("d"))
        self.pindex = {p["d"]: i for i, p in enumerate(fn.params)}
        self.pkind = [kind_of_type(fn.type(p["t"])) for p in fn.params]
        self.assigned_params = {self.pindex[d] for d in self.assigned if d in self.pindex}

    def resolve(self, n):
        seen = 0
        while n is not None and n.get("k") == "Ref" and n.get("dk") == "local" and n.get("d") in self.vars \
                and n.get("d") not in self.assigned and seen < 8:
            init = self.vars[n["d"]].get("init")
            if init is None or init.get("k") in ("Construct", "TempObj", "InitList"):
                break
            n = init
            seen += 1
        return n

    # ---- range views DenseVector(dv_in, size_in, offset_in) of an operand ---------------------------------------
    bydecl = None      # set by the caller: lets views built inside a helper struct's constructor be followed

    @staticmethod
    def _is_range_ctor(init):
        return init is not None and init.get("k") in ("Construct", "TempObj") and re.search(r"::DenseVector<[^:]*>::DenseVector$", init.get("callee", "") or "") \
            and init.get("pn") == ["dv_in", "size_in", "offset_in"] and len(init.get("a", [])) == 3

    @staticmethod
    def _subst(n, m):
        if not isinstance(n, dict):
            return n
        if n.get("k") == "Ref" and n.get("d") in m:
            return m[n["d"]]
        out = {}
        for k, v in n.items():
            if isinstance(v, dict):
                out[k] = FnInfo._subst(v, m)
            elif isinstance(v, list):
                out[k] = [FnInfo._subst(x, m) if isinstance(x, dict) else x for x in v]
            else:
                out[k] = v
        return out

    def _mkview(self, label, ctor, args, var):
        src = self.resolve(args[0])
        if src is not None and src.get("k") == "Ref" and src.get("dk") == "param" and src.get("d") in self.pindex:
            return {"label": label, "p": self.pindex[src["d"]], "len": args[1], "off": args[2], "ctor": ctor, "a": args, "var": var}
        return None

    def _local_views(self, d):
        """views held by local d: {'': view} for a DenseVector range view, {member: view} for an object of a repository class
        whose constructor builds range views of its first argument(s) in its member initialisers (arguments substituted)"""
        cache = self.__dict__.setdefault("_views", {})
        if d in cache:
            return cache[d]
        out = {}
        v = self.vars.get(d)
        init = v.get("init") if v else None
        if self._is_range_ctor(init):
            r = self._mkview(v.get("n"), init, init["a"], v)
            if r:
                out[""] = r
        elif init is not None and init.get("k") in ("Construct", "TempObj") and self.bydecl is not None:
            ctor = self.bydecl.get(init.get("cdecl"))
            if ctor is not None and ctor.d.get("ctor") and len(init.get("a", [])) == len(ctor.params):
                m = {p["d"]: a for p, a in zip(ctor.params, init["a"])}
                for mi in ctor.d.get("inits") or []:
                    ii = mi.get("init")
                    if mi.get("member") and self._is_range_ctor(ii):
                        r = self._mkview("%s.%s" % (v.get("n"), mi["member"]), ii, [self._subst(a, m) for a in ii["a"]], v)
                        if r:
                            out[mi["member"]] = r
        cache[d] = out
        return out

    def view_record(self, n):
        """Ref to a local range view, or member access local.field of a local that holds views -> view record or None"""
        if n is None:
            return None
        if n.get("k") == "Ref" and n.get("dk") == "local" and n.get("d") in self.vars:
            return self._local_views(n["d"]).get("")
        if n.get("k") == "Member" and n.get("b") is not None:
            b = self.resolve(n["b"])
            if b is not None and b.get("k") == "Ref" and b.get("dk") == "local" and b.get("d") in self.vars:
                return self._local_views(b["d"]).get(n.get("n"))
        return None

    def all_views(self):
        out = []
        for d in self.vars:
            out.extend(self._local_views(d).values())
        return out

    def view_of(self, n):
        """-> (param index, len node, offset node) or None"""
        r = self.view_record(n)
        return (r["p"], r["len"], r["off"]) if r else None

    def role(self, n):
        n = self.resolve(n)
        if n is None:
            return ("?", "")
        k = n.get("k")
        if k in ("Int", "Float"):
            try:
                return ("const", float(str(n.get("v"))))
            except ValueError:
                return ("?", render(n))
        if k == "Bool":
            v = n.get("v")
            return ("bool", v in (True, 1, "1", "true"))
        if k == "Cast" and n.get("ck") in ("functional", "static", "cstyle"):
            r = self.role(n.get("e"))
            return r if r[0] == "const" else ("?", render(n))
        if k in ("Construct", "TempObj") and len(n.get("a", [])) == 1:
            r = self.role(n["a"][0])
            return r if r[0] == "const" else ("?", render(n))
        if k == "Ref" and n.get("dk") == "param" and n.get("d") in self.pindex:
            return ("param", self.pindex[n["d"]])
        if k == "MCall":
            o = self.resolve(n.get("obj"))
            if o is None or o.get("k") == "This":
                return ("this", n.get("n"), persp(n))
            if o.get("k") == "Ref" and o.get("dk") == "param" and o.get("d") in self.pindex:
                return ("vec", self.pindex[o["d"]], n.get("n"), persp(n))
        return ("?", render(n))

    def enclosing_ifs(self, n):
        """[(if node, 'then'|'else'|'cond')] from innermost to outermost"""
        out = []
        cur = n
        while id(cur) in self.parent:
            p = self.parent[id(cur)]
            if p.get("k") == "If":
                if p.get("then") is cur:
                    out.append((p, "then"))
                elif p.get("else") is cur:
                    out.append((p, "else"))
                else:
                    out.append((p, "cond"))
            cur = p
        return out

    def in_loop(self, n):
        cur = n
        while id(cur) in self.parent:
            cur = self.parent[id(cur)]
            if cur.get("k") in ("For", "While", "Do", "ForRange"):
                return True
        return False

    def in_switch(self, n):
        cur = n
        while id(cur) in self.parent:
            cur = self.parent[id(cur)]
            if cur.get("k") == "Switch":
                return True
        return False


def role_str(r):
    if r[0] == "vec":
        return "param#%d.%s<%s>()" % (r[1], r[2], r[3])
    if r[0] == "this":
        return "this->%s<%s>()" % (r[1], r[2])
    if r[0] == "param":
        return "param#%d" % r[1]
    if r[0] in ("const", "bool"):
        return repr(r[1])
    return r[1]


def is_transposed(f):
    return f.name == "apply_transposed"


def arity(f):
    return len(f.params)


# --------------------------------------------------------------------------------------------------
# E0
# --------------------------------------------------------------------------------------------------

INST_NOTE = re.compile(r"in instantiation of .*?'(.+)' requested here")


def pattern_key(p):
    """source-level key of an uninstantiated overload (same spelling as fkey of its instantiations)"""
    t = tmpl(p.cls)
    var = ""
    if t in ("TupleDiagMatrix", "TupleMatrixRow", "TupleMatrix", "PowerDiagMatrix", "PowerRowMatrix", "PowerColMatrix"):
        var = "[1]" if "<" in p.cls else "[n]"
    return "%s%s::%s(%s)" % (t, var, p.name, ",".join(kind_of_type(p.type(q["t"])) for q in p.params))


def rule_e0(ck, agg, facts, pfacts, bydecl, drvdir):
    """one obligation per declared overload (pattern): it is curated (some driver cast instantiates it) and no
    front-end error lies in it or is first reached through it"""
    R = "E0.instantiable"
    pats = [p for p in pfacts.functions if p.tk == "pattern" and p.name in ("apply", "apply_transposed") and tmpl(p.cls) in SCALAR + META]
    if len(pats) < 100:
        ck.incomplete(R, "only %d apply/apply_transposed patterns found in the anchored class templates" % len(pats))
    byloc = {(p.file, p.line): p for p in pats}

    def pattern_at(fl, ln):
        for p in pats:
            if p.file == fl and p.line <= ln <= p.end:
                return p
        return None
    ninst = {}
    fail = {}
    drv = [f for f in facts.functions if f.file.startswith(drvdir)]
    casts = []
    for d in drv:
        for n in d.nodes():
            if n.get("k") == "Cast" and n.get("ck") == "static":
                e = n.get("e") or {}
                if e.get("k") == "Un" and e.get("op") == "&" and (e.get("e") or {}).get("dk") == "func":
                    casts.append((d, n, e["e"], bydecl.get(e["e"].get("d"))))
    if not casts:
        ck.incomplete(R, "driver %s contains no curated overload (no &M::apply casts found)" % DRIVER)
    # attribute front-end errors: innermost frame of the instantiation stack that lies in a declared overload
    for e in facts.diags:
        if not e["file"].startswith(featlib.REPO + "/"):
            ck.incomplete(R, "front-end error located in the driver/outside the repository (driver no longer matches the API): %s:%d %s" % (e["file"], e["line"], e["msg"]))
            continue
        locs = [(e["file"], e["line"])] + [(n["file"], n["line"]) for n in e["notes"] if INST_NOTE.search(n["msg"])]
        insts = [INST_NOTE.search(n["msg"]).group(1) for n in e["notes"] if INST_NOTE.search(n["msg"])]
        hit = None
        for k, (fl, ln) in enumerate(locs):
            hit = pattern_at(fl, ln)
            if hit is not None:
                fail.setdefault((hit.file, hit.line), []).append((e, insts[k] if k < len(insts) else "?"))
                break
        if hit is None:
            ck.incomplete(R, "front-end error in the repository not attributable to a declared apply* overload: %s:%d %s" % (rel(e["file"]), e["line"], e["msg"]))
    failed_decls = set()
    for d, n, ref, t in casts:
        if t is None:
            # the overload did not instantiate at all: explained only by an error attributed to an overload of that name
            cls_t, nm = tmpl(ref.get("qn", "").rsplit("::", 1)[0]), ref.get("n")
            if not any(tmpl(byloc[k].cls) == cls_t and byloc[k].name == nm for k in fail if k in byloc):
                ck.incomplete(R, "curated overload %s (driver line %s) has no instantiated body and no front-end error explains it" % (ref.get("qn"), n.get("l")))
            continue
        k = (t.file, t.line)
        if k not in byloc:
            ck.incomplete(R, "curated overload %s at %s is not a declared pattern of an anchored class" % (t.full, t.loc))
            continue
        ninst[k] = ninst.get(k, 0) + 1
        if k in fail:
            failed_decls.add(t.d.get("decl"))
    # members instantiated indirectly (e.g. rest().apply of a longer tuple) share the failure of their pattern
    for f in facts.functions:
        if f.tk != "pattern" and (f.file, f.line) in fail:
            failed_decls.add(f.d.get("decl"))
    for p in pats:
        k = (p.file, p.line)
        key = pattern_key(p)
        if k in fail:
            e, inst = fail[k][0]
            insts = sorted({i for _, i in fail[k]})
            ck.ob(R, key, False, "%s:%d: %s — the overload cannot be instantiated for documented-supported arguments [%d error(s); e.g. %s]" % (
                rel(e["file"]), e["line"], e["msg"], len(fail[k]), insts[0].replace("FEAT::LAFEM::", "")[:160]), p.file, e["line"])
        elif ninst.get(k, 0) == 0:
            ck.incomplete(R, "overload %s at %s is declared in the repository but no entry of the curated list in %s instantiates it" % (p.full, p.loc, DRIVER))
        else:
            ck.ob(R, key, True, "type-checks: address taken with the documented signature for %d template argument set(s)" % ninst[k], p.file, p.line)
    ck.note("E0: %d curated overload instantiations over %d declared overloads" % (len(casts), len(pats)))
    return failed_decls


# --------------------------------------------------------------------------------------------------
# helper inlining (lib/norm_c01.py): the rules see through helpers extracted from / shared between the
# anchored functions
# --------------------------------------------------------------------------------------------------

PRIMITIVE = re.compile(r"^FEAT::(Math|MemoryPool|Statistics|Util|String|Tiny)::|^FEAT::(assertion|abortion)$|^std::")
# members whose meaning is fixed by the accessor contract table (DESIGN A.2): never looked into
ACCESSORS = {"val", "elements", "col_ind", "row_ptr", "row_numbers", "offsets", "used_rows", "num_of_offsets", "rows", "columns", "used_elements", "size",
             "first", "rest", "block_a", "block_b", "block_d", "at", "get", "layout", "name", "bytes"}
_inline_cache = {}


def _member_policy(f):
    def allow(call, callee):
        cal = call.get("callee", "") or ""
        if ARCH_APPLY.match(cal) or PRIMITIVE.search(cal) or callee.name in ACCESSORS or callee.d.get("ctor") or callee.d.get("dtor"):
            return False
        if not callee.file.startswith(featlib.repo_path(LAFEM)):
            return False
        if call.get("a"):
            return True
        return f.type(callee.d.get("ret")).strip() in ("bool", "_Bool")
    return allow


def _kernel_policy(call, callee):
    cal = call.get("callee", "") or ""
    if PRIMITIVE.search(cal) or callee.cls == "FEAT::LAFEM::Arch::Apply" or "ApplyBanded" in callee.qn:
        return False
    return callee.file.startswith(featlib.repo_path(LAFEM))


def inline_member(f, bydecl):
    k = ("m", id(f))
    if k not in _inline_cache:
        _inline_cache[k] = InlinedFunction(f, bydecl, _member_policy(f))
    return _inline_cache[k]


def inline_kernel(f, bydecl):
    if isinstance(f, InlinedFunction):
        return f
    k = ("k", id(f))
    if k not in _inline_cache:
        _inline_cache[k] = InlinedFunction(f, bydecl, _kernel_policy)
    return _inline_cache[k]


# --------------------------------------------------------------------------------------------------
# E1
# --------------------------------------------------------------------------------------------------

ARCH_APPLY = re.compile(r"^FEAT::LAFEM::Arch::Apply::(\w+)$")


def arch_calls(f):
    for c in f.calls():
        if c.get("k") == "Call" and ARCH_APPLY.match(c.get("callee", "")):
            yield c


def rule_e1_roles(ck, agg, f, fi):
    R = "E1.role"
    tr = is_transposed(f)
    ar = arity(f)
    inst = f.cls.replace("FEAT::LAFEM::", "")
    blocked_m = tmpl(f.cls) in BLOCKED
    # "r is the zero vector here": established by r.format() / r.format(0), lost by any other mutable use of r
    def _is_r(a):
        a = fi.resolve(a)
        if a is not None and a.get("k") == "Ref" and a.get("dk") == "param" and fi.pindex.get(a.get("d")) == 0:
            return True
        r_ = fi.role(a)
        return r_[0] == "vec" and r_[1] == 0 and r_[2] == "elements"
    rz_at = {}

    def on_simple(node, st):
        for x in walk(node):
            k_ = x.get("k")
            if k_ == "MCall" and _is_r(x.get("obj")) and x.get("n") == "format" and (not x.get("a") or fi.role(x["a"][0]) == ("const", 0.0)):
                st = dict(st, rz=st["reach"])
            elif k_ == "Call" and ARCH_APPLY.match(x.get("callee", "") or ""):
                rz_at[id(x)] = st["rz"]
                st = dict(st, rz=F)
            elif k_ == "MCall" and _is_r(x.get("obj")) and not x.get("cconst") and x.get("n") not in ("elements", "size") \
                    and not (x.get("n") in ("copy", "convert") and x.get("a") and _is_r(x["a"][0])):
                st = dict(st, rz=F)
            elif k_ in ("Call", "MCall", "Construct", "TempObj") and any(_is_r(a_) for a_ in x.get("a", [])) and not re.search(r"^FEAT::assertion$", x.get("callee", "") or ""):
                pts_ = x.get("pt", [])
                for i_, a_ in enumerate(x.get("a", [])):
                    t_ = f.type(pts_[i_]).strip() if i_ < len(pts_) else ""
                    if _is_r(a_) and not t_.startswith("const "):
                        st = dict(st, rz=F)
        return st
    cnf_ = make_cnf(f, fi)
    fl_ = Flow(cnf_, tags=("reach", "rz"), on_simple=on_simple)
    fl_.run(f.body, {"reach": T, "rz": F})

    def r_is_zero_at(c):
        try:
            return f_sat(f_and(fl_.reach.get(id(c), T), f_not(rz_at.get(id(c), F))), cnf_.exclusions()) is None
        except TooManyAtoms:
            return False
    for c in arch_calls(f):
        try:
            if f_sat(fl_.reach.get(id(c), T), cnf_.exclusions()) is None:
                continue                  # dead call: constant-folded branch of an inlined helper
        except TooManyAtoms:
            pass
        kname = ARCH_APPLY.match(c["callee"]).group(1)
        pn = c.get("pn", [])
        args = c.get("a", [])
        base = "%s/%s" % (fkey(f), kname)
        if len(pn) != len(args):
            ck.incomplete(R, "%s: %d arguments for %d declared parameters" % (base, len(args), len(pn)))
            continue
        roles = {pn[i]: fi.role(args[i]) for i in range(len(pn))}
        bslot = next((s for s in BETA_SLOTS if s in roles), None)
        for i, slot in enumerate(pn):
            r = roles[slot]
            key = base + "/" + slot
            got = role_str(r)
            triv = False
            if slot == "r":
                ok = r[0] == "vec" and r[1] == 0 and r[2] == "elements"
                want = "elements of the result operand (param#0)"
            elif slot == "x":
                ok = r[0] == "vec" and r[1] == 1 and r[2] == "elements"
                want = "elements of the multiplicand (param#1)"
            elif slot == "y":
                if ar == 4:
                    ok = r[0] == "vec" and r[1] == 2 and r[2] == "elements"
                    want = "elements of the summand (param#2)"
                else:
                    # with b == 0 the kernels never read y (checked in slot b); any pointer is admissible
                    ok, want, triv = True, "unused (b = 0)", True
            elif slot in ALPHA_SLOTS:
                if ar == 4:
                    ok, want = (r == ("param", 3)), "the scalar operand alpha (param#3)"
                else:
                    ok, want = (r == ("const", 1.0)), "1 (2-operand form: r = 1*A*x + 0*r)"
            elif slot in BETA_SLOTS:
                if ar == 4:
                    ok, want = (r == ("const", 1.0)), "1 (4-operand form: r = alpha*A*x + 1*y)"
                else:
                    ok, want = (r == ("const", 0.0)), "0 (2-operand form: r = 1*A*x + 0*r)"
                    if not ok and r == ("const", 1.0) and "y" in roles and roles["y"][0] == "vec" and roles["y"][1] == 0 and roles["y"][2] == "elements" and r_is_zero_at(c):
                        ok = True         # r.format(); r <- r + 1*A*x: the 2-operand form forwarding to its 4-operand sibling with y := r
            elif slot in THIS_SLOTS:
                ok = r[0] == "this" and r[1] in THIS_SLOTS[slot]
                want = "this->%s()" % THIS_SLOTS[slot][0]
                if ok and slot in EXTENT_SLOTS and r[2] != "native":
                    ok = False
                    want += " in native perspective (the kernel scales by the block size itself)"
            elif slot == "transposed":
                ok, want = (r == ("bool", tr)), ("true" if tr else "false")
            else:
                ck.incomplete(R, "%s: callee parameter '%s' has no entry in the role table" % (base, slot))
                continue
            agg.add(R, key, ok, "slot %s <- %s; expected %s" % (slot, got, want), f.file, c.get("l"), inst=inst, trivial=triv)
        # kernel parity for kernels without a transposed flag
        if "transposed" not in pn:
            ok = kname.endswith("_transposed") == tr
            agg.add(R, base + "/(kernel)", ok, "%s calls Arch::Apply::%s; expected the %s kernel" % (f.name, kname, "transposed" if tr else "non-transposed"),
                    f.file, c.get("l"), inst=inst)


def assertion_eq(fi, c):
    """FEAT::assertion(a == b, ...) -> (role a, role b) or None"""
    if c.get("k") != "Call" or c.get("callee") != "FEAT::assertion" or not c.get("a"):
        return None
    e = c["a"][0]
    if e.get("k") != "Bin" or e.get("op") != "==":
        return None
    return fi.role(e["lhs"]), fi.role(e["rhs"])


def rule_e1_guards(ck, agg, f, fi, meta):
    """dimension guards: size(param p) == this->rows/columns in the role assignment of the call"""
    R = "E1.guard"
    tr = is_transposed(f)
    inst = f.cls.replace("FEAT::LAFEM::", "")
    persp_used = []
    for c in f.calls():
        eq = assertion_eq(fi, c)
        if not eq:
            continue
        a, b = eq
        if b[0] == "vec" and a[0] == "this":
            a, b = b, a
        if not (a[0] == "vec" and a[2] == "size" and b[0] == "this" and b[1] in ("rows", "columns")):
            continue
        p = a[1]
        if p > 2:
            continue
        # r (0) and y (2) live in the row space of the product, x (1) in the column space; swapped when transposing
        want = "rows" if ((p in (0, 2)) != tr) else "columns"
        ok = b[1] == want
        detail = "guard '%s': operand %s compared with this->%s(); the %s product needs this->%s()" % (render(c["a"][0]), "rxy"[p], b[1], "transposed" if tr else "plain", want)
        if ok and not meta:
            vk = fi.pkind[p]
            vunit = "scalar" if (vk == "DV" or a[3] == "pod") else "block"
            if tmpl(f.cls) in BLOCKED:
                munit = "scalar" if b[2] == "pod" else "block"
                if vunit != munit:
                    ok = False
                    detail = "guard '%s': operand %s counts %ss but this->%s<%s>() counts %ss" % (render(c["a"][0]), "rxy"[p], vunit, b[1], b[2], munit)
            elif vk == "DVB" and a[3] == "pod":
                ok = False
                detail = "guard '%s': pod size of a blocked operand compared with the rows/columns of a scalar matrix" % render(c["a"][0])
        if meta:
            persp_used.append((b[2], c))
        agg.add(R, "%s/guard/%s" % (fkey(f), "rxy"[p]), ok, detail, f.file, c.get("l"), inst=inst)
    return persp_used


KERNEL_SUFFIX = ("_generic", "_mkl", "_cuda")


def rule_e1_dispatch(ck, agg, facts, bydecl):
    """Arch::Apply::X wrappers forward their own parameters position by position to X_generic/_mkl/_cuda.  A wrapper may
    reach its kernels through intermediate dispatch helpers of Arch::Apply (twins sharing one dispatch function): the
    argument mapping is composed along the chain, the obligation stays "entry point X -> kernel X_*"."""
    R = "E1.dispatch"
    fns = [f for f in facts.functions if f.cls == "FEAT::LAFEM::Arch::Apply" and f.tk != "pattern"]
    wrappers = [f for f in fns if not f.name.endswith(KERNEL_SUFFIX)]
    # helpers = wrappers that other wrappers call (not entry points)
    inter = set()
    for f in wrappers:
        for c in arch_calls(f):
            g = bydecl.get(c.get("cdecl"))
            if g is not None and not g.name.endswith(KERNEL_SUFFIX) and g.d.get("decl") != f.d.get("decl"):
                inter.add(g.d.get("decl"))

    def chains(f, mapping, depth, seen):
        """-> [(kernel call, kernel name, kernel fn|None, [root param index|None per argument], [problems])]"""
        pidx = {p["d"]: i for i, p in enumerate(f.params)}
        fi = FnInfo(f)
        out = []
        for c in arch_calls(f):
            cname = ARCH_APPLY.match(c["callee"]).group(1)
            g = bydecl.get(c.get("cdecl"))
            amap, bad = [], []
            for i, a in enumerate(c.get("a", [])):
                a = fi.resolve(a)
                j = pidx.get(a.get("d")) if a is not None and a.get("k") == "Ref" and a.get("dk") == "param" else None
                amap.append(mapping[j] if j is not None and j < len(mapping) else None)
                if j is None:
                    bad.append("argument %d of the call of %s in %s is '%s', not a parameter of %s" % (i, cname, f.name, render(a)[:40], f.name))
            if cname.endswith(KERNEL_SUFFIX) or g is None:
                out.append((c, cname, g, amap, bad, f))
            elif depth >= 3 or g.d.get("decl") in seen:
                ck.incomplete(R, "dispatch chain below Arch::Apply::%s deeper than 3 helpers or recursive (at %s)" % (f.name, cname))
            else:
                for t in chains(g, amap, depth + 1, seen | {g.d.get("decl")}):
                    out.append(t[:4] + (bad + t[4],) + t[5:])
        return out
    for f in wrappers:
        if f.d.get("decl") in inter:
            continue
        ch = chains(f, list(range(len(f.params))), 0, {f.d.get("decl")})
        for c, cname, callee, amap, bad, via in ch:
            key = "Arch::Apply::%s->%s" % (f.name, cname)
            bad = list(bad)
            if len(amap) != len(f.params):
                bad.append("%d arguments forwarded for %d parameters" % (len(amap), len(f.params)))
            for i, j in enumerate(amap):
                if j is not None and j != i:
                    bad.append("argument %d of %s is the wrapper's parameter #%d '%s', expected its own parameter #%d '%s'" % (
                        i, cname, j, f.params[j]["n"], i, f.params[i]["n"] if i < len(f.params) else "?"))
            if callee is not None:
                for i, p in enumerate(callee.params[:len(f.params)]):
                    if p["n"] and f.params[i]["n"] and p["n"] != f.params[i]["n"] and {p["n"], f.params[i]["n"]} != {"y", "rhs"}:
                        bad.append("parameter %d is '%s' in the wrapper but '%s' in %s" % (i, f.params[i]["n"], p["n"], cname))
            if not cname.startswith(f.name + "_"):
                bad.append("wrapper %s dispatches to %s" % (f.name, cname))
            agg.add(R, key, not bad, "; ".join(bad) if bad else "forwards (%s) position by position%s" % (
                ", ".join(p["n"] for p in f.params), "" if via is f else " through %s" % via.name), via.file, c.get("l"), inst=f.full)
        if not ch:
            ck.incomplete(R, "dispatch wrapper %s (%s) contains no call to a kernel" % (f.full, f.loc))


# --------------------------------------------------------------------------------------------------
# E7
# --------------------------------------------------------------------------------------------------

def make_cnf(f, fi):
    """condition normal form of function f (see lib/norm_c01.py): constants are decided by fi.role"""
    def const_value(n):
        r = fi.role(n)
        if r[0] == "const":
            return r[1]
        m = fi.resolve(n) if n is not None else None
        if m is not None and m.get("k") == "Call":
            cal = m.get("callee", "") or ""
            if cal.endswith("Math::abs") and len(m.get("a", [])) == 1:
                v = const_value(m["a"][0])
                return abs(v) if v is not None else None
            if cal.endswith("Math::eps") and not m.get("a"):
                return 1e-16          # a tiny positive number: only compared with literal constants (alpha := 1 in a forwarded call)
        return None
    return CondNF(f, fi.resolve, const_value)


def _is_abs_of(fi, n, what):
    n = fi.resolve(n)
    return n is not None and n.get("k") == "Call" and n.get("callee", "").endswith("Math::abs") and len(n.get("a", [])) == 1 and fi.role(n["a"][0]) == what


def _is_eps(fi, n):
    n = fi.resolve(n)
    return n is not None and n.get("k") == "Call" and n.get("callee", "").endswith("Math::eps")


def _mentions_param(fi, n, idx):
    if n is None:
        return False
    for x in walk(n):
        if x.get("k") == "Ref":
            y = fi.resolve(x)
            for z in walk(y):
                if z.get("k") == "Ref" and z.get("dk") == "param" and fi.pindex.get(z.get("d")) == idx:
                    return True
    return False


class ZeroAtoms:
    """interpretation of the condition atoms of a container apply*: which of them state a zero product
    (this->used_elements()/rows()/columns()/size()/used_rows() == 0, |alpha| < eps, alpha == 0)"""

    EXTENTS = ("used_elements", "rows", "columns", "size", "used_rows")

    def __init__(self, fi, cnf, ar):
        self.fi, self.cnf, self.ar = fi, cnf, ar
        self.refresh()

    def refresh(self):
        fi, ar = self.fi, self.ar
        self.zero = []            # formulas, each an admissible zero-product condition
        self.names = {}
        self.strict, self.le, self.exact = [], [], []      # |alpha| < eps, eps < |alpha| (negated: |alpha| <= eps), alpha == 0
        self.alpha_other = []     # unrecognised atoms that mention alpha
        self.mutable = []         # atoms over assigned locals
        self.recognised = set()
        for key, info in list(self.cnf.atom_info.items()):
            kind = info.get("kind")
            if kind == "z":
                r = fi.role(info["e"])
                if r[0] == "this" and r[1] in self.EXTENTS:
                    self.zero.append(f_atom(key))
                    self.names[key] = "this->%s() == 0" % r[1]
                    self.recognised.add(key)
                    continue
                if r[0] == "vec" and r[2] == "size" and r[1] in (0, 1, 2):
                    # an empty operand: by the function's own guards an extent of the matrix is 0
                    self.zero.append(f_atom(key))
                    self.names[key] = "%s.size() == 0" % "rxy"[r[1]]
                    self.recognised.add(key)
                    continue
                if ar == 4 and r == ("param", 3):
                    self.zero.append(f_atom(key))
                    self.exact.append(key)
                    self.names[key] = "alpha == 0"
                    self.recognised.add(key)
                    continue
            if kind == "lt" and ar == 4:
                if _is_abs_of(fi, info["a"], ("param", 3)) and _is_eps(fi, info["b"]):
                    self.zero.append(f_atom(key))
                    self.strict.append(key)
                    self.names[key] = "|alpha| < eps"
                    self.recognised.add(key)
                    continue
                if _is_eps(fi, info["a"]) and _is_abs_of(fi, info["b"], ("param", 3)):
                    self.zero.append(f_not(f_atom(key)))
                    self.le.append(key)
                    self.names[key] = "eps < |alpha|"
                    self.recognised.add(key)
                    continue
            if ar == 4 and any(_mentions_param(fi, info.get(k_), 3) for k_ in ("e", "a", "b")):
                self.alpha_other.append(key)
            # tests of mutable local state (bookkeeping flags): correlated with the branches that set them, never free
            if kind not in ("loop", "case") and any(x.get("k") == "Ref" and x.get("dk") == "local" and x.get("d") in fi.assigned
                                                    for k_ in ("e", "a", "b") if isinstance(info.get(k_), dict) for x in walk(info[k_])):
                self.mutable.append(key)
            self.names.setdefault(key, self._name(key, info))

    @staticmethod
    def _name(key, info):
        if key[0] == "z":
            return "%s == 0" % key[1]
        if key[0] == "lt":
            return "%s < %s" % (key[1], key[2])
        if key[0] == "eq":
            return "%s == %s" % (key[1], key[2])
        if key[0] == "loop":
            return "loop at line %s entered" % key[2]
        if key[0] == "case":
            return "case at line %s taken" % key[2]
        return str(key[-1])

    def constraint(self):
        """lt/eq exclusions plus: alpha == 0 implies |alpha| < eps and not eps < |alpha|"""
        cs = [self.cnf.exclusions()]
        for x in self.exact:
            for s_ in self.strict:
                cs.append(f_or(f_not(f_atom(x)), f_atom(s_)))
            for l_ in self.le:
                cs.append(f_or(f_not(f_atom(x)), f_not(f_atom(l_))))
        for s_ in self.strict:
            for l_ in self.le:
                cs.append(f_not(f_and(f_atom(s_), f_atom(l_))))
        return f_and(*cs)

    def any_zero(self):
        return f_or(*self.zero) if self.zero else F

    def alpha_small(self):
        """|alpha| < eps in terms of the atoms present (None if the function never tests alpha against eps)"""
        if not self.strict and not self.le:
            return None
        return f_and(*([f_atom(k) for k in self.strict] + [f_not(f_atom(k)) for k in self.le]))

    def witness(self, w):
        if not w:
            return "unconditionally"
        parts = []
        for k, v in sorted(w.items(), key=lambda kv: repr(kv[0])):
            if k[0] in ("loop", "case"):
                continue
            parts.append(("%s" if v else "!(%s)") % self.names.get(k, self._name(k, {})))
        return " && ".join(parts) if parts else "unconditionally"


def reach_map(f, fi, cnf=None):
    """path condition (formula over cnf atoms) of every statement / call of f"""
    cnf = cnf or make_cnf(f, fi)
    fl = Flow(cnf)
    fl.run(f.body)
    return cnf, fl


def disjuncts(n):
    if n.get("k") == "Bin" and n.get("op") == "||":
        return disjuncts(n["lhs"]) + disjuncts(n["rhs"])
    return [n]


def kernel_divides_by_a(k, assume_small=True):
    """-> set of flags under which the kernel divides by its parameter a/alpha (with assume_small: although |a| < eps):
    {None} regardless of the flag, {True}/{False} only when transposed is true / false; decided on the path condition of
    the division (helpers inlined; a guard `if(|a| < eps) ... return` inside the kernel removes the need for one in the
    caller)"""
    ki = FnInfo(k)
    aidx = [i for i, p in enumerate(k.params) if p["n"] in ALPHA_SLOTS]
    tidx = [i for i, p in enumerate(k.params) if p["n"] == "transposed"]
    out = set()
    if not aidx:
        return out
    divs = [n for n in k.nodes() if n.get("k") in ("Bin", "Assign") and n.get("op") in ("/", "/=") and ki.role(n["rhs"]) == ("param", aidx[0])]
    if not divs:
        return out
    cnf, fl = reach_map(k, ki)
    tform = cnf.formula({"k": "Ref", "dk": "param", "d": k.params[tidx[0]]["d"], "n": "transposed", "t": k.params[tidx[0]]["t"]}) if tidx else None
    small = []
    if assume_small:
        for key, info in cnf.atom_info.items():
            if info.get("kind") == "lt" and _is_abs_of(ki, info["a"], ("param", aidx[0])) and _is_eps(ki, info["b"]):
                small.append(f_atom(key))
            elif info.get("kind") == "lt" and _is_eps(ki, info["a"]) and _is_abs_of(ki, info["b"], ("param", aidx[0])):
                small.append(f_not(f_atom(key)))
    for n in divs:
        r = fl.reach.get(id(n))
        if r is None:
            out.add(None)
            continue
        r = f_and(r, *small)
        if tform is None:
            if f_sat(r, cnf.exclusions()) is not None:
                out.add(None)
            continue
        st = f_sat(f_and(r, tform), cnf.exclusions()) is not None
        sf = f_sat(f_and(r, f_not(tform)), cnf.exclusions()) is not None
        if st and sf:
            out.add(None)
        elif st:
            out.add(True)
        elif sf:
            out.add(False)
    return out


def resolve_generic(bydecl, call, depth=0):
    """Arch::Apply::X call -> list of generic kernel bodies it reaches (wrapper [-> dispatch helper]* -> *_generic)"""
    w = bydecl.get(call.get("cdecl"))
    if w is None or depth > 3:
        return None
    if w.name.endswith("_generic"):
        return [w]
    out = []
    for c in arch_calls(w):
        sub = resolve_generic(bydecl, c, depth + 1)
        if sub is None:
            return None
        out.extend(g for g in sub if g not in out)
    return out or None


def transfer_semantics(bydecl, call, argi, depth=0):
    """how the member call `call` transfers its argument #argi into *this, decided on the resolved callee body:
    {'shares'}: a pointer obtained from the source is stored in this->_elements (r is re-seated onto the source's
    buffer); {'value'}: MemoryPool::copy/convert from the source's arrays into this->_elements; transitive through
    members called on *this with the same source.  Empty set: undecided."""
    callee = bydecl.get(call.get("cdecl"))
    if callee is None or depth > 4 or argi >= len(callee.params):
        return set()
    src = callee.params[argi]["d"]

    def mentions_src(n):
        return any(x.get("k") == "Ref" and x.get("d") == src for x in walk(n))

    def own_elements(n):
        return any(x.get("k") == "Member" and x.get("n") == "_elements" and (x.get("b") is None or x["b"].get("k") == "This") for x in walk(n))
    out = set()
    for n in callee.nodes():
        k = n.get("k")
        if k == "MCall":
            o = n.get("obj")
            if o is not None and o.get("k") == "Member" and o.get("n") == "_elements" and (o.get("b") is None or o["b"].get("k") == "This") \
                    and n.get("n") in ("push_back", "emplace_back", "assign", "insert") and any(mentions_src(a) for a in n.get("a", [])):
                out.add("shares")
            elif (o is None or o.get("k") == "This") and n.get("cdecl") != call.get("cdecl"):
                for i, a in enumerate(n.get("a", [])):
                    if a.get("k") == "Ref" and a.get("d") == src:
                        out |= transfer_semantics(bydecl, n, i, depth + 1)
        elif k == "OpCall" and n.get("op") == "=" and n.get("a") and own_elements(n["a"][0]) and len(n["a"]) > 1 and mentions_src(n["a"][1]):
            out.add("shares")
        elif k == "Call" and re.search(r"MemoryPool::(copy|convert)$", n.get("callee", "")):
            a = n.get("a", [])
            if len(a) >= 2 and own_elements(a[0]) and not mentions_src(a[0]) and mentions_src(a[1]):
                out.add("value")
    return out


def positive_preconditions(callee):
    """parameter indices k for which the callee itself asserts  param_k > 0  (XASSERT at the top level of its body)"""
    out = {}
    if callee is None:
        return None
    pidx = {p["d"]: i for i, p in enumerate(callee.params)}
    for n in callee.nodes():
        if n.get("k") == "Call" and n.get("callee") == "FEAT::assertion" and n.get("a"):
            e = n["a"][0]
            if e.get("k") == "Bin" and e.get("op") in (">", "!="):
                l, r = e["lhs"], e["rhs"]
                while r.get("k") in ("Cast", "Construct", "TempObj") and (r.get("e") is not None or len(r.get("a", [])) == 1):
                    r = r.get("e") if r.get("e") is not None else r["a"][0]
                if l.get("k") == "Ref" and l.get("d") in pidx and r.get("k") == "Int" and str(r.get("v")) == "0":
                    out[pidx[l["d"]]] = render(e)
    return out


def rule_e7(ck, agg, f, fi, bydecl):
    """decided on the structured tree of f with its helpers inlined: path conditions are formulas over canonical
    condition atoms, so early return / if-else / negated conditions with swapped branches / nested ifs / conditions
    held in const locals or in `return E;` helpers are the same program to this rule"""
    ar = arity(f)
    inst = f.cls.replace("FEAT::LAFEM::", "")
    key = fkey(f)
    kernel_defs, early, unmodelled = {}, {}, {}

    def mutable_param(call, i):
        """the callee parameter receiving argument i is a pointer/reference to a mutable object"""
        pts = call.get("pt", [])
        if i >= len(pts):
            return True        # variadic / unknown: assume the worst
        t = f.type(pts[i]).strip()
        return ("*" in t or "&" in t) and not t.startswith("const ")

    def is_r_array(a):
        r = fi.role(a)
        return r[0] == "vec" and r[1] == 0 and r[2] == "elements"

    def is_r_object(a):
        a = fi.resolve(a)
        return a is not None and a.get("k") == "Ref" and a.get("dk") == "param" and fi.pindex.get(a.get("d")) == 0

    # expressions the function's own guards establish as "number of scalars of r" (the extent of a flat copy into r)
    blockedm = tmpl(f.cls) in BLOCKED
    podsize = {("vec", 0, "size", "pod")}
    if fi.pkind[0] == "DV":
        podsize.add(("vec", 0, "size", "native"))
    guards = []
    for c in f.calls():
        eq = assertion_eq(fi, c)
        if eq:
            a, b = eq
            if b[0] == "vec" and a[0] == "this":
                a, b = b, a
            if a[0] == "vec" and a[2] == "size" and b[0] == "this" and b[1] in ("rows", "columns"):
                guards.append((a, b))
    for a, b in guards:
        if a[1] == 0 and (blockedm or fi.pkind[0] == "DV"):
            podsize.add(("this", b[1], "pod"))
            if not blockedm:
                podsize.add(("this", b[1], "native"))
    for a, b in guards:
        if a[1] != 0 and b in podsize and (fi.pkind[a[1]] == "DV" or a[3] == "pod"):
            podsize.add(a)
            if fi.pkind[a[1]] == "DV":
                podsize.add(("vec", a[1], "size", "pod"))
                podsize.add(("vec", a[1], "size", "native"))

    for n in f.nodes():
        k = n.get("k")
        if k == "Call" and ARCH_APPLY.match(n.get("callee", "")):
            pn = n.get("pn", [])
            if "r" in pn and len(n.get("a", [])) == len(pn):
                if is_r_array(n["a"][pn.index("r")]):
                    kernel_defs[n["i"]] = n
                    continue
        if k == "Call" and re.search(r"(^|::)MemoryPool::(copy|set_memory)$", n.get("callee", "")) and len(n.get("a", [])) == 3 and is_r_array(n["a"][0]) and mutable_param(n, 0):
            cnt = fi.role(n["a"][2])
            if cnt not in podsize:
                unmodelled[n["i"]] = "%s writes %s scalars into r; the function's guards do not establish that this is the pod size of r" % (n["callee"].rsplit("::", 1)[-1], role_str(cnt))
            elif n["callee"].endswith("::set_memory"):
                v = fi.role(n["a"][1])
                early[n["i"]] = (n, "format" if v == ("const", 0.0) else "format-nonzero")
            else:
                src = fi.role(n["a"][1])
                early[n["i"]] = (n, "copy-y" if (src[0] == "vec" and src[1] == 2 and src[2] == "elements") else "copy-other:" + role_str(src))
            continue
        if k in ("Call", "MCall", "Construct", "TempObj", "OpCall"):
            for i, a in enumerate(n.get("a", [])):
                if (is_r_array(a) or is_r_object(a)) and mutable_param(n, i) and n.get("i") not in kernel_defs:
                    unmodelled[n["i"]] = "r (or its array) is passed to the mutable parameter #%d of %s, which the rule does not model" % (i, n.get("callee", "?"))
        if k == "Assign":
            l = n.get("lhs") or {}
            if l.get("k") == "Index" and is_r_array(l.get("b")):
                unmodelled[n["i"]] = "direct store through the array of r: %s" % render(n)[:60]
        if k == "MCall":
            o = fi.resolve(n.get("obj"))
            if o is not None and o.get("k") == "Ref" and o.get("dk") == "param" and fi.pindex.get(o.get("d")) == 0 and not n.get("cconst"):
                nm = n.get("n")
                if nm == "format":
                    a = n.get("a", [])
                    v = fi.role(a[0]) if a else ("const", 0.0)
                    early[n["i"]] = (n, "format" if v == ("const", 0.0) else "format-nonzero")
                elif nm in ("copy", "convert") and n.get("a"):
                    src = fi.role(n["a"][0])
                    if src == ("param", 0):
                        continue          # r.copy(r) (a 4-operand sibling inlined with y := r): no-op
                    early[n["i"]] = (n, "copy-y" if src == ("param", 2) else "copy-other:" + role_str(src))
                elif nm in ("elements", "size"):
                    pass
                else:
                    unmodelled[n["i"]] = "unrecognised modification of the result operand: %s" % render(n)[:120]
    if 0 in fi.assigned_params or (ar == 4 and 3 in fi.assigned_params):
        ck.incomplete("E7.exit-defines-r", "%s: the parameter r/alpha is reassigned inside the function: not modelled" % key)
        return

    # ---- one pass over the structured tree: reach, "r undefined", "last definition of r is early-out #i" --------
    cnf = make_cnf(f, fi)
    good_form = "format" if ar == 2 else "copy-y"
    good_early = {i for i, (n, form) in early.items() if form == good_form}
    etags = {i: "eo%d" % i for i in early}
    by_node = {}
    for i, n in kernel_defs.items():
        by_node[id(n)] = ("kernel", i)
    for i, (n, form) in early.items():
        by_node[id(n)] = ("early", i)
    for i in unmodelled:
        n = f.by_id(i)
        if n is not None and id(n) not in by_node:
            by_node[id(n)] = ("other", i)

    def on_simple(node, st):
        hits = [by_node[id(x)] for x in walk(node) if id(x) in by_node]
        for kind, i in hits:
            st = dict(st)
            for t in etags.values():
                st[t] = F
            if kind == "early":
                st[etags[i]] = st["reach"]
                if i in good_early:
                    st["undef"] = F
            else:
                st["undef"] = F
        return st
    fl = Flow(cnf, tags=("reach", "undef") + tuple(etags.values()), on_simple=on_simple)
    init = {t: F for t in fl.tags}
    init["reach"] = T
    init["undef"] = T
    try:
        fl.run(f.body, init)
        za = ZeroAtoms(fi, cnf, ar)
        cons = za.constraint()
        _rule_e7_decide(ck, agg, f, fi, bydecl, key, inst, ar, cnf, fl, za, cons, kernel_defs, early, good_early, etags, unmodelled)
    except TooManyAtoms as e_:
        ck.incomplete("E7.exit-defines-r", "%s: %s independent branch conditions: path conditions not enumerated" % (key, e_))


def _rule_e7_decide(ck, agg, f, fi, bydecl, key, inst, ar, cnf, fl, za, cons, kernel_defs, early, good_early, etags, unmodelled):
    # policy: an operation on r the rule does not model is never "no definition of r" — it is analysis-incomplete
    live = lambda n: n is not None and f_sat(fl.reach.get(id(n), T), cons) is not None
    for i, why in sorted(unmodelled.items()):
        if live(f.by_id(i)):
            ck.incomplete("E7.exit-defines-r", "%s: %s (line %s)" % (key, why, (f.by_id(i) or {}).get("l")))
    defs_in_loop = [n for n in list(kernel_defs.values()) + [e[0] for e in early.values()] if fi.in_loop(n) or fi.in_switch(n)]
    bad_exit = None
    # 4-operand forms: on a path on which r was found to be the very vector y (same object / same array) r holds y
    same = {}
    if ar == 4:
        def _opnd(n):
            n = fi.resolve(n)
            while n is not None and ((n.get("k") == "Un" and n.get("op") == "&") or n.get("k") == "Cast"):
                n = fi.resolve(n.get("e"))
            if n is None:
                return None
            if n.get("k") == "Ref" and n.get("dk") == "param":
                return fi.pindex.get(n.get("d"))
            r_ = fi.role(n)
            return r_[1] if r_[0] == "vec" and r_[2] == "elements" else None
        for k_, info in cnf.atom_info.items():
            if info.get("kind") == "eq" and {_opnd(info["a"]), _opnd(info["b"])} == {0, 2}:
                same[k_] = False
    # an empty result operand needs no definition: r.size() == this->rows() (columns() when transposing) is the function's own
    # guard (rule E1.guard), so `if (rows() == 0) return;` defines all zero entries of r
    rext = "columns" if is_transposed(f) else "rows"
    for k_, info in cnf.atom_info.items():
        if info.get("kind") == "z":
            r_ = fi.role(info["e"])
            if (r_[0] == "this" and r_[1] == rext) or (r_[0] == "vec" and r_[1] == 0 and r_[2] == "size"):
                same[k_] = False
    dep_exit = None
    fixc = f_and(cons, *[f_atom(k_) if v_ else f_not(f_atom(k_)) for k_, v_ in same.items()])
    for node, st in fl.exits:
        verdict, w = decide(st["undef"], fixc, universal=[k_ for k_ in za.mutable if k_ in f_atoms(st["undef"])])
        if verdict == "sat":
            bad_exit = (node, w)
            break
        if verdict == "depends" and dep_exit is None:
            dep_exit = (node, w)
    if bad_exit is None and dep_exit is not None:
        ck.incomplete("E7.exit-defines-r", "%s: whether r is defined at %s depends on local bookkeeping state (%s): not modelled" % (
            key, ("the return at line %s" % dep_exit[0].get("l")) if dep_exit[0] is not None else "the end of the function", za.witness({k_: v_ for k_, v_ in dep_exit[1].items() if k_ in za.mutable})))
    ok = bad_exit is None
    detail = "every normal exit is preceded by a definition of r (%d kernel call(s), %d early-out(s))" % (len(kernel_defs), len(good_early))
    line = f.line
    if not ok and defs_in_loop:
        ck.incomplete("E7.exit-defines-r", "%s: a definition of r lies inside a loop/switch (line %s): not modelled" % (key, defs_in_loop[0].get("l")))
        ok = True
    if not ok:
        node, w = bad_exit
        line = node.get("l") if node is not None else f.end
        wrongform = ["'%s' (line %s)" % (render(n_)[:70], n_.get("l")) for i_, (n_, fm_) in sorted(early.items()) if i_ not in good_early]
        detail = ("a normal exit (%s) is reachable without a definition of r with the value of this form%s (%s) when %s" % (
            ("return at line %s" % node.get("l")) if node is not None else "end of the function",
            (" — only " + ", ".join(wrongform[:2]) + ", which does not produce it") if wrongform else "",
            "format()" if ar == 2 else "copy(y)" + " or the kernel call", za.witness(w)))
    agg.add("E7.exit-defines-r", key, ok, detail, f.file, line, inst=inst)

    # early-outs: form of the arity + zero-product condition, for those that can be the final definition
    zero = za.any_zero()
    for i, (n, form) in sorted(early.items()):
        final = F
        for node, st in fl.exits:
            final = f_or(final, st[etags[i]])
        if f_sat(final, cons) is None:
            continue
        ekey = "%s/early-out" % key
        want = "r.format()" if ar == 2 else "r.copy(y)"
        if i not in good_early:
            agg.add("E7.early-out", ekey, False, "early-out '%s' is the final definition of r; the %d-operand form must return %s" % (
                render(n)[:80], ar, "the zero vector via r.format()" if ar == 2 else "y via r.copy(y) (r = y + alpha*A*x with A*x = 0 or alpha = 0)"), f.file, n.get("l"), inst=inst)
            continue
        if fi.in_loop(n) or fi.in_switch(n):
            ck.incomplete("E7.early-out", "%s: early-out inside a loop/switch (line %s)" % (key, n.get("l")))
            continue
        if ar == 4:
            if n.get("k") == "Call" and n.get("callee", "").endswith("MemoryPool::copy"):
                sem = {"value"}      # copies `count` scalars from y's array into the array r already owns
            else:
                sem = transfer_semantics(bydecl, n, 0)
            if not sem:
                ck.incomplete("C6.early-out-copy", "%s: cannot decide how '%s' transfers y into r (callee body of %s not resolved)" % (key, render(n)[:60], n.get("cfull", "?")))
            else:
                agg.add("C6.early-out-copy", ekey, "shares" not in sem,
                        ("early-out '%s' resolves to %s, which stores y's element pointer in r (shallow convert): r is re-seated onto the buffer of the input operand y, so any later "
                         "write to r modifies y and r no longer owns its storage" % (render(n)[:50], (n.get("cfull") or "?").replace("FEAT::LAFEM::", ""))) if "shares" in sem else
                        "r receives the values of y by MemoryPool::copy into its own array (%s)" % (n.get("cfull") or "?").replace("FEAT::LAFEM::", "")[:90], f.file, n.get("l"), inst=inst)
        # the early-out is the final definition exactly under `final`; it must imply a zero product
        unknown = [k_ for k_ in f_atoms(final) if k_ not in za.recognised]
        verdict, w = decide(f_and(final, f_not(zero)), cons, universal=unknown)
        if verdict == "depends":
            ck.incomplete("E7.early-out", "%s: unrecognised early-out condition (%s) (line %s)" % (key, "; ".join(sorted(za.names.get(k_, str(k_)) for k_ in unknown))[:160], n.get("l")))
            continue
        agg.add("E7.early-out", ekey, verdict == "unsat",
                ("early-out %s is the result when %s, which does not imply a zero product" % (want, za.witness(w))) if verdict != "unsat" else
                "%s only under %s" % (want, " || ".join(sorted({za.names[k_] for k_ in f_atoms(final) if k_ in za.recognised})) or "a zero-product condition"), f.file, n.get("l"), inst=inst)

    # kernels dividing by a must not be reached with alpha = 0
    if ar == 4:
        for i, c in sorted(kernel_defs.items()):
            pn = c["pn"]
            rc = fl.reach.get(id(c), T)
            if f_sat(rc, cons) is None:
                continue                      # dead call (constant-folded branch of an inlined helper)
            flag = None
            if "transposed" in pn:
                r = fi.role(c["a"][pn.index("transposed")])
                flag = r[1] if r[0] == "bool" else None
            gens = resolve_generic(bydecl, c)
            if gens is None:
                ck.incomplete("E7.alpha-guard", "%s: kernel body of %s not in the facts" % (key, c["callee"]))
                continue
            needs = divides = False
            for g in gens:
                for small_ in (False, True):
                    fl_ = kernel_divides_by_a(inline_kernel(g, bydecl), assume_small=small_)
                    if None in fl_ or (flag is not None and flag in fl_) or (flag is None and fl_ and "transposed" in pn):
                        if small_:
                            needs = True
                        else:
                            divides = True
            akey = "%s/%s" % (key, ARCH_APPLY.match(c["callee"]).group(1))
            if not divides:
                continue
            if not needs:
                agg.add("E7.alpha-guard", akey, True, "the kernel computes b/a only behind its own |a| < eps test", f.file, c.get("l"), inst=inst)
                continue
            aslot = next((s for s in ALPHA_SLOTS if s in pn), None)
            if aslot is None or fi.role(c["a"][pn.index(aslot)])[0] == "const":
                continue
            if fi.role(c["a"][pn.index(aslot)]) != ("param", 3):
                continue                      # E1.role reports a wrong alpha operand
            small = za.alpha_small()
            target = rc if small is None else f_and(rc, small)
            verdict, w = decide(target, cons, universal=[k_ for k_ in set(za.alpha_other) | set(za.mutable) if k_ in f_atoms(target)])
            if verdict == "depends":
                ck.incomplete("E7.alpha-guard", "%s: the kernel call is guarded by a test on alpha / on local state the rule does not recognise (%s)" % (
                    key, "; ".join(za.names.get(k_, str(k_)) for k_ in za.alpha_other + za.mutable)[:160]))
                continue
            ok = verdict == "unsat"
            agg.add("E7.alpha-guard", akey, ok,
                    "the kernel computes b/a; the call is %s" % ("unreachable when |alpha| < eps" if ok else
                                                                 "reachable with alpha = 0 (%s; no |alpha| < eps test excludes it): r becomes inf/NaN" % (
                                                                     "path condition: " + za.witness({k_: v for k_, v in w.items() if k_ in f_atoms(rc)}))),
                    f.file, c.get("l"), inst=inst)


# --------------------------------------------------------------------------------------------------
# clause 6
# --------------------------------------------------------------------------------------------------

def drops_const(fn, n):
    """explicit cast that removes constness of a pointee / referee"""
    ck_ = n.get("ck")
    if ck_ == "const":
        return True
    if ck_ not in ("cstyle", "reinterpret", "static", "functional"):
        return False
    to = n.get("to", "") or ""
    if "*" not in to and "&" not in to:
        return False
    src = fn.ntype(n.get("e") or {})
    if "*" not in src and "&" not in src and "const" not in src:
        return False
    # pointee constness: 'const T *' / 'T const *'; compare presence of const before the last * or &
    def pointee_const(t):
        i = max(t.rfind("*"), t.rfind("&"))
        return "const" in t[:i] if i >= 0 else ("const" in t)
    return pointee_const(src) and not pointee_const(to)


def rule_c6(ck, agg, f, fi, meta):
    R = "C6.inputs-const"
    inst = f.cls.replace("FEAT::LAFEM::", "")
    bad = []
    if not f.d.get("const"):
        bad.append("member function is not const (the matrix may be modified)")
    for i, p in enumerate(f.params):
        t = f.type(p["t"])
        if i == 0:
            continue
        if ("&" in t or "*" in t) and not t.strip().startswith("const "):
            bad.append("input operand '%s' is taken as '%s' (not const)" % (p["n"], t[-60:]))
    line = f.line
    for n in f.nodes():
        if n.get("k") == "Cast" and drops_const(f, n):
            bad.append("cast '%s' removes constness (line %s)" % (render(n)[:80], n.get("l")))
            line = n.get("l") or line
    agg.add(R, fkey(f), not bad, "; ".join(bad) if bad else "const member, inputs const&, no const-removing cast", f.file, line, inst=inst)
    if not meta:
        return
    # range views alias their source through a const_cast inside DenseVector(dv, size, offset): views of the input
    # operands must stay in const callee positions
    views = [r for r in fi.all_views() if r["p"] >= 1]
    if not views:
        return
    bad = []
    line = f.line
    for c in f.calls():
        pts = c.get("pt", [])
        for i, a in enumerate(c.get("a", [])):
            r = fi.view_record(a)
            if r is not None and r["p"] >= 1 and i < len(pts):
                t = f.type(pts[i])
                if ("&" in t or "*" in t) and not t.strip().startswith("const "):
                    bad.append("view '%s' of input operand %s is passed to the non-const parameter '%s' of %s (line %s)" % (
                        r["label"], "rxy"[r["p"]] if r["p"] < 3 else "?", (c.get("pn") or ["?"] * 9)[i], c.get("callee", "?").rsplit("::", 1)[-1], c.get("l")))
                    line = c.get("l") or line
        o = c.get("obj")
        ro = fi.view_record(o) if c.get("k") == "MCall" else None
        if ro is not None and ro["p"] >= 1 and not c.get("cconst"):
            bad.append("non-const member '%s' called on view '%s' of an input operand (line %s)" % (c.get("n"), ro["label"], c.get("l")))
            line = c.get("l") or line
    agg.add("C6.view-alias", fkey(f), not bad, "; ".join(bad) if bad else "%d range view(s) of x/y only in const positions" % len(views), f.file, line, inst=inst)


def rule_c6_kernels(ck, agg, facts, bydecl=None):
    R = "C6.kernel-const"
    for f in facts.functions:
        if f.tk == "pattern":
            continue
        if not (f.cls == "FEAT::LAFEM::Arch::Apply" or "Arch::Intern::ApplyBanded" in f.qn):
            continue
        bad = []
        ptr = [(i, p, f.type(p["t"])) for i, p in enumerate(f.params) if "*" in f.type(p["t"])]
        nonconst = [(i, p, t) for i, p, t in ptr if not t.strip().startswith("const ")]
        for i, p, t in nonconst:
            if i != 0:
                bad.append("parameter #%d '%s' is a non-const pointer '%s' besides the result" % (i, p["n"], t))
        line = f.line
        for n in f.nodes():
            if n.get("k") == "Cast" and drops_const(f, n):
                bad.append("cast '%s' removes constness (line %s)" % (render(n)[:80], n.get("l")))
                line = n.get("l") or line
        agg.add(R, "Arch::%s" % f.qn.split("Arch::", 1)[-1], not bad, "; ".join(bad) if bad else "only the result pointer is writable; casts keep const",
                display_file(f), line, inst=f.full)
        # helpers called from the kernel (extracted blocks): a writable pointer parameter may only receive the result pointer,
        # and the helper itself contains no const-removing cast
        fi = FnInfo(f)
        rdecl = f.params[0]["d"] if f.params else None
        ralias = {rdecl}
        for d, v in fi.vars.items():
            init = v.get("init")
            while init is not None and init.get("k") == "Cast":
                init = init.get("e")
            if init is not None and init.get("k") == "Ref" and init.get("d") in ralias:
                ralias.add(d)
        for c in f.calls():
            callee = (bydecl or {}).get(c.get("cdecl")) if c.get("k") == "Call" else None
            if callee is None or callee.cls == "FEAT::LAFEM::Arch::Apply" or "ApplyBanded" in callee.qn or PRIMITIVE.search(c.get("callee", "") or ""):
                continue
            hb = []
            for i, a in enumerate(c.get("a", [])):
                if i >= len(callee.params):
                    break
                t = callee.type(callee.params[i]["t"]).strip()
                if "*" in t and not t.startswith("const "):
                    b = a
                    while b is not None and (b.get("k") == "Cast" or (b.get("k") == "Bin" and b.get("op") in ("+", "-"))):
                        if b.get("k") == "Cast" and drops_const(f, b):
                            break
                        b = b.get("e") if b.get("k") == "Cast" else b.get("lhs")
                    b = fi.resolve(b) if b is not None else None
                    if not (b is not None and b.get("k") == "Ref" and b.get("d") in ralias):
                        hb.append("the writable parameter '%s' of helper %s receives '%s', which is not the result pointer (line %s)" % (
                            callee.params[i]["n"], callee.name, render(a)[:50], c.get("l")))
            hline = callee.line
            for n in callee.nodes():
                if n.get("k") == "Cast" and drops_const(callee, n):
                    hb.append("cast '%s' in helper %s removes constness (line %s)" % (render(n)[:80], callee.name, n.get("l")))
                    hline = n.get("l") or hline
            agg.add(R, "Arch::%s" % (callee.qn.split("Arch::", 1)[-1] if "Arch::" in callee.qn else callee.qn), not hb,
                    "; ".join(hb) if hb else "helper: writable pointer parameters receive only the result pointer; casts keep const", display_file(callee), hline, inst=callee.full)


# --------------------------------------------------------------------------------------------------
# E4 (meta matrices)
# --------------------------------------------------------------------------------------------------

def block_of_receiver(fi, o):
    """receiver of a block call -> accessor name ('first', 'rest', 'block_a', ..., '_container') or None"""
    o = fi.resolve(o) if o is not None else None
    if o is None:
        return None
    if o.get("k") == "MCall" and (o.get("obj") is None or o["obj"].get("k") == "This") and not o.get("a"):
        return o.get("n")
    if o.get("k") == "Member" and (o.get("b") is None or o["b"].get("k") == "This"):
        return o.get("n")
    return None


def extent_nf(fi, n):
    """len/offset expression of a range view -> ('ext', block accessor, 'rows'|'columns', perspective) | ('const', v) | None"""
    r = fi.role(n)
    if r[0] == "const":
        return r
    n = fi.resolve(n)
    if n.get("k") == "MCall" and n.get("n") in ("rows", "columns") and not n.get("a"):
        b = block_of_receiver(fi, n.get("obj"))
        if b is not None:
            return ("ext", b, n["n"], persp(n))
    return None


def proj_nf(fi, a):
    """operand projection normal form"""
    v = fi.view_of(a)
    if v is not None:
        return ("view", v[0], extent_nf(fi, v[1]), extent_nf(fi, v[2]), fi.view_record(a)["label"])
    a = fi.resolve(a)
    if a.get("k") == "Ref" and a.get("dk") == "param" and a.get("d") in fi.pindex:
        if fi.pkind[fi.pindex[a["d"]]] == "a":
            return ("param", fi.pindex[a["d"]])
        return ("p", fi.pindex[a["d"]], "whole")
    if a.get("k") == "MCall":
        o = fi.resolve(a.get("obj"))
        if o is not None and o.get("k") == "Ref" and o.get("dk") == "param" and o.get("d") in fi.pindex and not a.get("a"):
            nm = a.get("n")
            if nm in ("first", "rest"):
                return ("p", fi.pindex[o["d"]], nm)
            if nm == "at":
                m = re.search(r"::at<(\d+)>$", a.get("cfull", ""))
                if m:
                    return ("p", fi.pindex[o["d"]], "at" + m.group(1))
    r = fi.role(a)
    if r[0] in ("const", "param"):
        return r
    return ("?", render(a))


def proj_str(p):
    if p[0] == "p":
        return "param#%d%s" % (p[1], "" if p[2] == "whole" else "." + p[2] + "()")
    if p[0] == "view":
        f = lambda e: "?" if e is None else (repr(e[1]) if e[0] == "const" else "%s().%s()" % (e[1], e[2]))
        return "view(param#%d, len=%s, off=%s)" % (p[1], f(p[2]), f(p[3]))
    return role_str(p) if p[0] in ("const", "param") else p[1]


def expected_proj(struct, var, flat, side, idx, param):
    """accepted normal forms of 'component idx of operand param on side L/R'; views are checked separately"""
    blocks, nl, nr, style = struct
    n = nl if side == "L" else nr
    if n == 1:
        return ("p", param, "whole")
    if flat:
        if var == "[1]":
            return ("p", param, "whole")
        return ("viewidx", param, side, idx)
    if style == "at":
        return ("p", param, "at%d" % idx)
    return ("p", param, "first" if idx == 0 else "rest")


def view_matches(struct, v, side, idx, param):
    """range view v = ('view', p, len, off, name) is component idx on the given side: len = extent of a block in that
    block row (rows) / block column (columns); off = 0 resp. the extent of the preceding component"""
    blocks = struct[0]
    if v[0] != "view" or v[1] != param or v[2] is None or v[3] is None:
        return False
    acc = "rows" if side == "L" else "columns"
    pos = 0 if side == "L" else 1

    def is_ext(e, i):
        return e[0] == "ext" and e[2] == acc and e[1] in blocks and blocks[e[1]][pos] == i
    if not is_ext(v[2], idx):
        return False
    if idx == 0:
        return v[3] == ("const", 0.0)
    return is_ext(v[3], 0)


def rule_e4(ck, agg, f, fi, persp_guards, bydecl):
    t = tmpl(f.cls)
    struct = STRUCT[t]
    var = variant(f.cls)
    blocks = dict(struct[0])
    if var == "[1]":
        blocks.pop("rest", None)
    tr = is_transposed(f)
    ar = arity(f)
    key = fkey(f)
    inst = f.cls.replace("FEAT::LAFEM::", "")
    flat = fi.pkind[0] == "DV"
    if ar not in (2, 4):
        ck.incomplete("E4.matvec", "%s: %d parameters" % (key, ar))
        return
    # straight-line body of guards, view declarations and block calls
    calls = []
    for s in (f.body or {}).get("s", []):
        k = s.get("k")
        if k == "MCall" and s.get("n") in ("apply", "apply_transposed"):
            calls.append(s)
        elif k == "Call" and s.get("callee") == "FEAT::assertion":
            continue
        elif k == "Decl":
            for v in s.get("vars", []):
                if not fi._local_views(v["d"]):
                    ri = fi.role({"k": "Ref", "dk": "local", "d": v["d"], "n": v["n"]})
                    if v.get("init") is not None and extent_nf(fi, v["init"]) is None and ri[0] == "?":
                        ck.incomplete("E4.matvec", "%s: unrecognised local '%s' (line %s)" % (key, v.get("n"), v.get("l")))
        else:
            ck.incomplete("E4.matvec", "%s: unrecognised statement '%s' (line %s) in a block-recursive apply" % (key, render(s)[:80], s.get("l")))
            return
    seen = {}
    written = {}     # result component index -> first call
    for c in calls:
        b = block_of_receiver(fi, c.get("obj"))
        ckey = "%s/%s" % (key, b or "?")
        if b is None or b not in struct[0]:
            ck.incomplete("E4.matvec", "%s: block call on unrecognised receiver '%s' (line %s)" % (key, render(c.get("obj"))[:60], c.get("l")))
            continue
        if b not in blocks:
            agg.add("E4.blocks", key, False, "one-element specialisation calls %s()" % b, f.file, c.get("l"), inst=inst)
            continue
        seen[b] = seen.get(b, 0) + 1
        # method parity
        agg.add("E4.parity", ckey, c.get("n") == f.name, "%s forwards block %s() to '%s'%s" % (f.name, b, c.get("n"), "" if c.get("n") == f.name else " — must forward to '%s'" % f.name),
                f.file, c.get("l"), inst=inst)
        i, j = blocks[b]
        args = c.get("a", [])
        prj = [proj_nf(fi, a) for a in args]
        bad = []
        if len(args) not in (2, 4):
            ck.incomplete("E4.matvec", "%s: block call with %d arguments" % (ckey, len(args)))
            continue
        rside, ridx, xside, xidx = (("R", j, "L", i) if tr else ("L", i, "R", j))

        def chk(p, side, idx, param, what):
            e = expected_proj(struct, var, flat, side, idx, param)
            if p[0] == "?":
                # an operand expression the rule cannot resolve to a component / range view of a parameter is not a wrong operand
                ck.incomplete("E4.matvec", "%s: %s operand '%s' is not a recognised component or range view of an operand (line %s)" % (ckey, what, p[1][:60], c.get("l")))
                return
            if e[0] == "viewidx":
                if not view_matches(struct, p, side, idx, param):
                    bad.append("%s operand is %s; expected the range of param#%d that covers block %s %d (length = %s of a block in it, offset = %s)" % (
                        what, proj_str(p), param, "row" if side == "L" else "column", idx, "rows()" if side == "L" else "columns()", "0" if idx == 0 else "extent of component 0"))
            elif p[:3] != e:
                bad.append("%s operand is %s; expected %s" % (what, proj_str(p), proj_str(e)))
        chk(prj[0], rside, ridx, 0, "result")
        chk(prj[1], xside, xidx, 1, "x")
        first = ridx not in written
        if first:
            written[ridx] = c
            if ar == 2:
                if len(args) != 2:
                    bad.append("first term written to result component %d uses the accumulating 4-operand form (r is read before it is defined)" % ridx)
            else:
                if len(args) != 4:
                    bad.append("first term written to result component %d drops y and alpha (2-operand call in the 4-operand form)" % ridx)
                else:
                    chk(prj[2], rside, ridx, 2, "y")
                    if prj[3] != ("param", 3):
                        bad.append("alpha operand is %s; expected the scalar operand alpha" % proj_str(prj[3]))
        else:
            if len(args) != 4:
                bad.append("second term for result component %d overwrites the first (2-operand call; must be r = r + alpha*B*x)" % ridx)
            else:
                if prj[2] != prj[0]:
                    bad.append("accumulating term adds onto %s instead of the result component %s" % (proj_str(prj[2]), proj_str(prj[0])))
                want = ("param", 3) if ar == 4 else ("const", 1.0)
                if prj[3] != want:
                    bad.append("accumulating term scales by %s; expected %s (same alpha as the defining term)" % (proj_str(prj[3]), "alpha" if ar == 4 else "1"))
        agg.add("E4.matvec", ckey, not bad, "; ".join(bad) if bad else "block %s(%d,%d): %s <- %s%s" % (
            b, i, j, proj_str(prj[0]), proj_str(prj[1]), "" if len(args) == 2 else " + " + proj_str(prj[2])), f.file, c.get("l"), inst=inst)
    miss = [b for b in blocks if seen.get(b, 0) == 0]
    dup = [b for b, n in seen.items() if n > 1]
    agg.add("E4.blocks", key, not miss and not dup,
            ("block(s) %s never applied" % miss if miss else "") + (" block(s) %s applied more than once" % dup if dup else "") if (miss or dup) else
            "each of %s applied exactly once" % sorted(blocks), f.file, f.line, inst=inst)
    # callee precondition of the range-view constructor: DenseVector(dv, size, offset) asserts size > 0
    if flat:
        unmet, nviews = [], 0
        for vr in fi.all_views():
            v = vr["var"]
            nviews += 1
            init = dict(vr["ctor"], a=vr["a"])
            rc = bydecl.get(init.get("cdecl"))
            if rc is None or not rc.d.get("ctor") or [p_["n"] for p_ in rc.params] != init.get("pn"):
                # constructor calls in member initialisers carry no declaration id: find the range constructor by signature
                rc = next((g for g in bydecl.values() if g.qn == init.get("callee") and [p_["n"] for p_ in g.params] == init.get("pn")), None)
            pre = positive_preconditions(rc)
            if pre is None:
                ck.incomplete("E4.view-nonempty", "%s: body of the range-view constructor not in the facts" % key)
                continue
            for k, txt in pre.items():
                if k >= len(init.get("a", [])):
                    continue
                arg = init["a"][k]
                r = fi.role(arg)
                if r[0] == "const" and r[1] > 0:
                    continue
                e = extent_nf(fi, arg)
                # established at the call site: an XASSERT / enclosing if on the same extent being non-zero
                want = render(fi.resolve(arg))
                est = False
                for c in f.calls():
                    if c.get("k") == "Call" and c.get("callee") == "FEAT::assertion" and c.get("a") and c["a"][0].get("k") == "Bin" and c["a"][0].get("op") in (">", "!=") \
                            and render(fi.resolve(c["a"][0]["lhs"])) == want and fi.role(c["a"][0]["rhs"]) == ("const", 0.0):
                        est = True
                for ifn, br in fi.enclosing_ifs(fi.parent.get(id(v), v)):
                    cnd = fi.resolve(ifn["c"])
                    if br == "then" and cnd.get("k") == "Bin" and cnd.get("op") in (">", "!=") and render(fi.resolve(cnd["lhs"])) == want and fi.role(cnd["rhs"]) == ("const", 0.0):
                        est = True
                if not est:
                    unmet.append("%s(%s, %s, ...): the constructor asserts '%s' but %s may be 0" % (vr["label"], render(init["a"][0]), render(arg), txt,
                                                                                                  ("%s().%s()" % (e[1], e[2])) if e and e[0] == "ext" else render(arg)))
        if nviews:
            agg.add("E4.view-nonempty", key, not unmet,
                    ("range view(s) of a flat operand are built for every block without regard to its extent: %s — a sub-matrix with 0 rows/columns (empty matrices are admissible) "
                     "aborts in DenseVector(dv,size,offset) although the typed overload handles it" % "; ".join(unmet[:3])) if unmet else
                    "%d range view(s): every positivity precondition of the view constructor is established at the call site" % nviews, f.file, f.line, inst=inst)
    # perspective of flat views and guards
    if flat and var != "[1]" and t != "PowerFullMatrix":
        native = []
        for vr in fi.all_views():
            for e in (extent_nf(fi, vr["len"]), extent_nf(fi, vr["off"])):
                if e is not None and e[0] == "ext" and e[3] != "pod":
                    native.append("%s: %s().%s<%s>()" % (vr["label"], e[1], e[2], e[3]))
        for pp, c in persp_guards:
            if pp != "pod":
                native.append("guard %s" % render(c["a"][0]))
        agg.add("E4.view-perspective", key, not native,
                ("flat DenseVector operands count scalars, but sizes/offsets are taken in native (block) perspective: %s — for sub-matrices with block size > 1 "
                 "(SparseMatrixBCSR) the guards/ranges do not fit any operand" % "; ".join(sorted(set(native))[:6])) if native else "all range extents and guards in pod perspective",
                f.file, f.line, inst=inst)


# --------------------------------------------------------------------------------------------------
# E5.alias-safe: r may alias y (4-operand forms) — decided on the CFG with param-atom path sensitivity
# --------------------------------------------------------------------------------------------------

def _leaf_last(n):
    while n.get("k") == "Bin" and n.get("op") in ("||", "&&"):
        n = n["rhs"]
    return n


class AliasCFG:
    """feasible-path search over the clang CFG of one kernel.  Conditions that mention only (never assigned)
    parameters are tracked as atoms: a path may not take the true edge of an atom and later its false edge."""

    def __init__(self, f, fi, ptr_names):
        self.f, self.fi, self.cfg = f, fi, f.cfg
        self.ptr = ptr_names      # decl id -> 'r' | 'y' | ... for pointer params and their aliases
        self.cons = {}
        for b in self.cfg.blocks.values():
            self.cons[b["id"]] = self._atom(b)

    def _param_only(self, n):
        for x in walk(n):
            if x.get("k") == "Ref":
                if x.get("dk") == "param":
                    if x.get("d") in self.fi.assigned:
                        return False
                elif x.get("dk") in ("local", "field", "global", "smember"):
                    return False
            elif x.get("k") in ("Assign", "Un") and x.get("op") in ("=", "++", "--", "+=", "-="):
                return False
            elif x.get("k") in ("MCall", "Member", "This", "Index"):
                return False
        return True

    def atom_key(self, n):
        """-> (key, polarity) of a condition atom, or None"""
        n = self.fi.resolve(n)
        pol = True
        while n.get("k") == "Un" and n.get("op") == "!":
            n = self.fi.resolve(n["e"])
            pol = not pol
        if not self._param_only(n):
            return None
        if n.get("k") == "Bin":
            op = n.get("op")
            l, r = self.fi.resolve(n["lhs"]), self.fi.resolve(n["rhs"])
            names = {self.ptr.get(l.get("d")) if l.get("k") == "Ref" else None, self.ptr.get(r.get("d")) if r.get("k") == "Ref" else None}
            if op in ("!=", "==") and names == {"r", "y"}:
                return ("r!=y", pol if op == "!=" else not pol)
            if op in (">=", ">"):
                return ("(%s %s %s)" % (render(l), "<" if op == ">=" else "<=", render(r)), not pol)
            if op in ("<", "<=", "==", "!="):
                if op == "!=":
                    return ("(%s == %s)" % (render(l), render(r)), not pol)
                return ("(%s %s %s)" % (render(l), op, render(r)), pol)
            return None
        if n.get("k") in ("Ref", "Call"):
            return (render(n), pol)
        return None

    def _atom(self, b):
        cid = b.get("cond")
        succ = b.get("succ", [])
        if cid is None or len(succ) != 2:
            return None
        cn = self.f.by_id(cid)
        if cn is None:
            return None
        term = b.get("term")
        if term in ("IfStmt", "ConditionalOperator"):
            return self.atom_key(_leaf_last(self.fi.resolve(cn)))
        if term == "BinaryOperator":
            return self.atom_key(cn)
        return None

    def reach(self, sb, sp, assign, target, avoid=()):
        """assignments (dicts) with which statement position target=(block, pos) is reached on a feasible path that
        starts at position sp of block sb under `assign` and executes no statement in `avoid` before the target"""
        tb, tp = target
        out, seen = [], set()
        queue = [(sb, sp, dict(assign))]
        while queue:
            b, p, A = queue.pop()
            els = self.cfg.blocks[b]["el"]
            stopped = False
            for q in range(p, len(els)):
                if b == tb and q == tp:
                    out.append(A)
                if els[q] in avoid:
                    stopped = True
                    break
            if stopped:
                continue
            c = self.cons.get(b)
            for i, s in enumerate(self.cfg.blocks[b].get("succ", [])):
                if s is None:
                    continue
                A2 = A
                if c is not None:
                    key, pol = c
                    val = (i == 0) == pol
                    if key in A and A[key] != val:
                        continue
                    if key not in A:
                        A2 = dict(A)
                        A2[key] = val
                st = (s, tuple(sorted(A2.items())))
                if st in seen:
                    continue
                seen.add(st)
                queue.append((s, 0, A2))
        return out


def rule_alias(ck, agg, facts, bydecl=None):
    """r may alias y (apply(r,x,r,alpha) is permitted and used by the meta matrices).  In every kernel/wrapper that
    receives both: a read of y must not be preceded, on a feasible path on which r != y has not been established, by
    a write to r that can hit the element read."""
    R_ = "E5.alias-safe"
    viol_fns = set()
    bydecl = bydecl or {}
    anchor = lambda g: g.tk != "pattern" and (g.cls == "FEAT::LAFEM::Arch::Apply" or "Arch::Intern::ApplyBanded" in g.qn)
    items = [(f, None) for f in facts.functions if anchor(f)]
    queued = set()
    qi = 0
    while qi < len(items):
        f, bind = items[qi]
        qi += 1
        if bind is None:
            rp = [p for p in f.params if p["n"] == "r"]
            yp = [p for p in f.params if p["n"] in ("y", "rhs")]
            if not rp or not yp or f.cfg is None:
                continue
            key = "Arch::%s" % f.qn.split("Arch::", 1)[-1]
            bslot = next((i for i, p in enumerate(f.params) if p["n"] in BETA_SLOTS), None)
            ptr = {rp[0]["d"]: "r", yp[0]["d"]: "y"}
        else:
            # helper reached from a kernel with both r and y: roles from the call-site binding, not from parameter names
            if f.cfg is None:
                ck.incomplete(R_, "helper %s receives r and y but has no CFG" % f.full)
                continue
            key = ("Arch::%s" % f.qn.split("Arch::", 1)[-1]) if "Arch::" in f.qn else f.qn.replace("FEAT::LAFEM::", "")
            bslot = next((i for i, p in enumerate(f.params) if bind.get(p["d"]) == "b"), None)
            ptr = {d: w for d, w in bind.items() if w in ("r", "y")}
        dfile = display_file(f)
        fi = FnInfo(f)
        changed = True
        while changed:
            changed = False
            for d, v in fi.vars.items():
                if d in ptr or "*" not in f.type(v.get("t")):
                    continue
                init = v.get("init")
                while init is not None and (init.get("k") == "Cast" or (init.get("k") == "Bin" and init.get("op") in ("+", "-") and "*" in f.ntype(init))):
                    # br = reinterpret_cast<B*>(r);  br_end = br + columns (an end pointer into the same array)
                    init = init.get("e") if init.get("k") == "Cast" else (init.get("lhs") if "*" in f.ntype(init.get("lhs") or {}) else init.get("rhs"))
                if init is not None and init.get("k") == "Ref" and init.get("d") in ptr:
                    ptr[d] = ptr[init["d"]]
                    changed = True
        if any(d in fi.assigned for d in ptr):
            ck.incomplete(R_, "%s: pointer r/y (or an alias) is reassigned" % key)
            continue
        # helpers that receive both r and y are analysed like kernels (bounded: each helper once per role binding)
        for c in f.calls():
            callee = bydecl.get(c.get("cdecl")) if c.get("k") == "Call" else None
            if callee is None or anchor(callee) or PRIMITIVE.search(c.get("callee", "") or "") or len(c.get("a", [])) != len(callee.params):
                continue
            roles = []
            for a in c["a"]:
                while a is not None and a.get("k") == "Cast":
                    a = a.get("e")
                a = fi.resolve(a) if a is not None else None
                w = ptr.get(a.get("d")) if a is not None and a.get("k") == "Ref" else None
                if w is None and a is not None and bslot is not None and fi.role(a) == ("param", bslot):
                    w = "b"
                roles.append(w)
            if "r" in roles and "y" in roles:
                b2 = {callee.params[i]["d"]: w for i, w in enumerate(roles) if w}
                sig = (callee.d.get("decl"), tuple(sorted((i, w) for i, w in enumerate(roles) if w)))
                if sig not in queued and len(queued) < 64:
                    queued.add(sig)
                    items.append((callee, b2))
        acfg = AliasCFG(f, fi, ptr)
        cfg = f.cfg

        def stmt_pos(n):
            cur = n
            while cur is not None:
                if "i" in cur and cfg.block_of(cur["i"]) is not None:
                    return cfg.block_of(cur["i"]), cur
                cur = fi.parent.get(id(cur))
            return None, None

        def loop_of(n):
            cur = n
            while id(cur) in fi.parent:
                cur = fi.parent[id(cur)]
                if cur.get("k") in ("For", "While", "Do", "ForRange"):
                    return cur
            return None

        def cond_inside(n, loop):
            cur = n
            while id(cur) in fi.parent:
                cur = fi.parent[id(cur)]
                if cur is loop:
                    return False
                if cur.get("k") in ("If", "Cond", "Switch"):
                    return True
            return False

        def nested(a, b):
            cur = a
            while cur is not None:
                if cur is b:
                    return True
                cur = fi.parent.get(id(cur))
            return False

        reads, writes, unknown = [], [], []
        for n in f.nodes():
            if n.get("k") != "Ref" or n.get("d") not in ptr:
                continue
            who = ptr[n["d"]]
            par = fi.parent.get(id(n))
            while par is not None and par.get("k") == "Cast":
                par = fi.parent.get(id(par))
            # pointer arithmetic in an argument position (std::copy(y, y + n, r)): look at the enclosing call
            while par is not None and par.get("k") == "Bin" and par.get("op") in ("+", "-") and "*" in f.ntype(par) \
                    and (fi.parent.get(id(par)) or {}).get("k") in ("Call", "Cast", "Bin", "Var", "Decl"):
                par = fi.parent.get(id(par))
                while par is not None and par.get("k") == "Cast":
                    par = fi.parent.get(id(par))
            if par is None:
                continue
            pk = par.get("k")
            if pk == "Var" or (pk == "Decl"):
                continue                                   # alias declaration
            if pk == "Bin" and par.get("op") in ("==", "!="):
                continue                                   # pointer comparison
            sub = None
            if pk == "Index" and par.get("b") is not None and n in list(walk(par["b"])) and par["b"].get("k") in ("Ref", "Cast"):
                sub = (par, par["idx"])
            elif pk == "OpCall" and par.get("op") == "[]" and len(par.get("a", [])) == 2 and n in list(walk(par["a"][0])):
                sub = (par, par["a"][1])
            if sub is not None:
                node, idx = sub
                up = fi.parent.get(id(node))
                is_write = False
                if up is not None:
                    if up.get("k") == "Assign" and up.get("lhs") is node:
                        is_write = True
                    elif up.get("k") == "OpCall" and up.get("op") in ("=", "+=", "-=", "*=", "/=") and up.get("a") and up["a"][0] is node:
                        is_write = True
                    elif up.get("k") == "MCall" and up.get("obj") is node and not up.get("cconst"):
                        is_write = True
                    elif up.get("k") == "Un" and up.get("op") in ("++", "--", "&"):
                        is_write = True
                if who == "r" and is_write:
                    writes.append({"kind": "elem", "node": up, "idx": idx})
                elif who == "y" and is_write:
                    unknown.append("write through y: %s (line %s)" % (render(up)[:60], up.get("l")))
                elif who == "y":
                    reads.append({"kind": "elem", "node": node, "idx": idx})
                continue
            if pk in ("Call", "MCall", "Construct"):
                cal = par.get("callee", "")
                args = par.get("a", [])
                ai = next((i for i, a in enumerate(args) if n in list(walk(a))), None)
                if re.search(r"MemoryPool::(set_memory|copy)$", cal) and ai is not None:
                    if ai == 0 and who == "r":
                        writes.append({"kind": "whole", "node": par, "idx": None})
                        continue
                    if ai == 1 and who == "y" and cal.endswith("::copy"):
                        reads.append({"kind": "whole", "node": par, "idx": None})
                        continue
                if STD_TRANSFORM.match(cal) and ai is not None and len(args) in (4, 5):
                    # std::transform(first, last, [first2,] out, op): reads the input range(s), writes [out, ..) element by element
                    dsti = len(args) - 2
                    if who == "r" and ai == dsti:
                        writes.append({"kind": "whole", "node": par, "idx": None})      # every element of the range is rewritten
                        continue
                    if who == "r":
                        continue                              # r as an input range: a read of r
                    if who == "y" and ai != dsti:
                        reads.append({"kind": "whole", "node": par, "idx": None})
                        continue
                if (STD_FILL.match(cal) or STD_COPY.match(cal) or C_MEM.match(cal)) and ai is not None:
                    # std::fill(r, r+n, v) / fill_n(r, n, v) / memset(r, ..): whole write; std::copy(y, y+n, r) / copy_n(y, n, r) /
                    # memcpy(r, y, n): one call that reads y and writes r
                    dst = (2,) if STD_COPY.match(cal) else ((0, 1) if cal.endswith("::fill") else (0,))
                    if who == "r" and ai in dst:
                        writes.append({"kind": "whole", "node": par, "idx": None})
                        continue
                    if who == "y" and not STD_FILL.match(cal) and ai not in dst:
                        reads.append({"kind": "whole", "node": par, "idx": None})
                        continue
                if who == "r":
                    writes.append({"kind": "call", "node": par, "idx": None})
                else:
                    reads.append({"kind": "whole", "node": par, "idx": None})
                continue
            unknown.append("%s used in '%s' (line %s)" % (who, render(par)[:60], par.get("l")))
        if unknown:
            ck.incomplete(R_, "%s: access to r/y of unrecognised shape: %s" % (key, "; ".join(unknown[:3])))
            continue

        def scaled_by_b(rd):
            """the value read flows only into products with the parameter b/beta"""
            if bslot is None or rd["kind"] != "elem":
                return False

            def times_b(node):
                up = fi.parent.get(id(node))
                while up is not None and up.get("k") == "Cast":
                    node, up = up, fi.parent.get(id(up))
                if up is None:
                    return False
                if up.get("k") == "Bin" and up.get("op") == "*":
                    other = up["rhs"] if up["lhs"] is node else up["lhs"]
                    return fi.role(other) == ("param", bslot)
                if up.get("k") == "OpCall" and up.get("op") == "*" and len(up.get("a", [])) == 2:
                    other = up["a"][1] if up["a"][0] is node else up["a"][0]
                    return fi.role(other) == ("param", bslot)
                return False
            if times_b(rd["node"]):
                return True
            up = fi.parent.get(id(rd["node"]))
            while up is not None and up.get("k") == "Cast":
                up = fi.parent.get(id(up))
            if up is not None and up.get("k") == "Var" and up.get("d") not in fi.assigned:
                uses = [x for x in f.nodes() if x.get("k") == "Ref" and x.get("d") == up["d"]]
                return bool(uses) and all(times_b(u) for u in uses)
            return False

        bzero_key = None
        if bslot is not None:
            for b in cfg.blocks.values():
                cid = b.get("cond")
                cn = f.by_id(cid) if cid is not None else None
                if cn is None:
                    continue
                for leaf in [x for x in walk(fi.resolve(cn)) if x.get("k") == "Bin" and x.get("op") in ("<", "<=")]:
                    l = fi.resolve(leaf["lhs"])
                    if l.get("k") == "Call" and l.get("callee", "").endswith("Math::abs") and len(l.get("a", [])) == 1 and fi.role(l["a"][0]) == ("param", bslot):
                        ak = acfg.atom_key(leaf)
                        if ak:
                            bzero_key = ak[0]
        bad, inc = [], []
        for rd in reads:
            rpos, rstmt = stmt_pos(rd["node"])
            if rpos is None:
                inc.append("read of y at line %s is not a CFG statement" % rd["node"].get("l"))
                continue
            Lr = loop_of(rd["node"])
            for w in writes:
                wpos, wstmt = stmt_pos(w["node"])
                if wpos is None:
                    inc.append("write to r at line %s is not a CFG statement" % w["node"].get("l"))
                    continue
                same_stmt = wstmt is rstmt or nested(rd["node"], w["node"])
                if same_stmt and w["kind"] != "elem":
                    continue                              # copy(r, y, n) / kernel(r, ..., y): one call reads y and writes r
                hazard_paths = []
                for Aw in acfg.reach(cfg.entry, 0, {}, wpos):
                    for Ar in acfg.reach(wpos[0], wpos[1] + 1, Aw, rpos):
                        if Ar.get("r!=y") is True:
                            continue                      # r and y are distinct arrays on this path
                        hazard_paths.append(Ar)
                if not hazard_paths:
                    continue
                wl, rl = w["node"].get("l"), rd["node"].get("l")
                bz_only = bzero_key is not None and all(A.get(bzero_key) is True for A in hazard_paths)
                if bz_only and scaled_by_b(rd):
                    continue                              # |b| < eps on every such path and the value is only multiplied by b
                if w["kind"] == "whole":
                    if bz_only:
                        inc.append("y is read (line %s) after r was filled (line %s) on the |b| < eps path, and the value is not visibly scaled by b" % (rl, wl))
                    else:
                        bad.append("r is overwritten as a whole by '%s' (line %s) and y is read afterwards ('%s', line %s) on a path where r != y is not established: "
                                   "with r aliasing y (apply*(r,x,r,alpha)) the summand is destroyed before it is read" % (render(w["node"])[:50], wl, render(rd["node"])[:30], rl))
                    continue
                if w["kind"] == "call":
                    inc.append("r is passed to %s (line %s) before y is read (line %s)" % (w["node"].get("callee", "?").rsplit("::", 1)[-1], wl, rl))
                    continue
                # element write vs element read
                if rd["kind"] != "elem":
                    inc.append("element write to r (line %s) precedes a whole read of y (line %s)" % (wl, rl))
                    continue
                Lw = loop_of(w["node"])
                lbr = loop_bound(fi, Lr) if Lr is not None and Lr.get("k") in ("For", "While") else None
                lbw = loop_bound(fi, Lw) if Lw is not None and Lw.get("k") in ("For", "While") else None
                r_ind = lbr is not None and fi.resolve(rd["idx"]).get("k") == "Ref" and fi.resolve(rd["idx"]).get("d") == lbr[0]
                w_ind = lbw is not None and fi.resolve(w["idx"]).get("k") == "Ref" and fi.resolve(w["idx"]).get("d") == lbw[0]
                if Lw is not None and Lw is Lr and r_ind and w_ind:
                    if Lr.get("k") == "While":
                        lst_ = (Lr.get("body") or {}).get("s", []) or [{}]
                        inc_id = lst_[-1].get("i")
                    else:
                        inc_id = (Lr.get("inc") or {}).get("i")
                    same_iter = any(True for Aw in acfg.reach(cfg.entry, 0, {}, wpos) for _ in acfg.reach(wpos[0], wpos[1] + 1, Aw, rpos, avoid={inc_id})) and not same_stmt
                    if same_iter:
                        bad.append("r[%s] is written (line %s) before y[%s] is read (line %s) in the same loop iteration: wrong when r aliases y" % (render(w["idx"]), wl, render(rd["idx"]), rl))
                    # else: earlier iterations wrote other elements (the index is the induction variable): safe
                    continue
                if r_ind and w_ind and Lw is not Lr and not nested(Lr, Lw) and not nested(Lw, Lr) and not cond_inside(w["node"], Lw) \
                        and fi.role(lbr[1]) == ("const", 0.0) and fi.role(lbw[1]) == ("const", 0.0) and render(fi.resolve(lbr[2])) == render(fi.resolve(lbw[2])):
                    bad.append("the loop at line %s writes r[%s] for every index below %s before the loop at line %s reads y[%s] over the same range: "
                               "with r aliasing y (apply*(r,x,r,alpha)) the summand is destroyed before it is read" % (Lw.get("l"), render(w["idx"]), render(lbw[2]), Lr.get("l"), render(rd["idx"])))
                    continue
                inc.append("element write r[%s] (line %s) can precede the read y[%s] (line %s); overlap under aliasing not decided" % (render(w["idx"]), wl, render(rd["idx"]), rl))
        if bad:
            viol_fns.add(f.name)
        elif inc:
            ck.incomplete(R_, "%s: %s" % (key, "; ".join(sorted(set(inc))[:3])))
        agg.add(R_, key, not bad, "; ".join(sorted(set(bad))[:2]) if bad else "%d read(s) of y, %d write(s) to r: no read of y can follow a write to r unless r != y was tested" % (len(reads), len(writes)),
                dfile, (bad and f.line) or f.line, inst=f.full)
    return viol_fns


# --------------------------------------------------------------------------------------------------
# E2-light on the generic kernels
# --------------------------------------------------------------------------------------------------

def _is_var(n, d):
    return n is not None and n.get("k") == "Ref" and n.get("d") == d


def _is_step_up(fi, n, d):
    """++v, v++, v += 1, v = v + 1"""
    if n is None:
        return False
    if n.get("k") == "Bin" and n.get("op") == ",":
        # ++v, ++p: exactly one of the comma operands steps v
        parts, st = [], [n]
        while st:
            x = st.pop()
            if x.get("k") == "Bin" and x.get("op") == ",":
                st += [x["lhs"], x["rhs"]]
            else:
                parts.append(x)
        touching = [x for x in parts if any(_is_var(y, d) for y in walk(x))]
        return len(touching) == 1 and _is_step_up(fi, touching[0], d)
    if n.get("k") == "Un" and n.get("op") == "++":
        return _is_var(n.get("e"), d)
    if n.get("k") == "Assign" and n.get("op") == "+=":
        return _is_var(n.get("lhs"), d) and fi.role(n["rhs"]) == ("const", 1.0)
    if n.get("k") == "Assign" and n.get("op") == "=" and _is_var(n.get("lhs"), d):
        r = n["rhs"]
        while r.get("k") == "Cast":
            r = r["e"]
        if r.get("k") == "Bin" and r.get("op") == "+":
            return (_is_var(r["lhs"], d) and fi.role(r["rhs"]) == ("const", 1.0)) or (_is_var(r["rhs"], d) and fi.role(r["lhs"]) == ("const", 1.0))
    return False


def _upper_bound(c, d):
    """condition v < B | B > v | v != B  ->  B"""
    if c is None or c.get("k") != "Bin":
        return None
    if c.get("op") in ("<", "!=") and _is_var(c["lhs"], d):
        return c["rhs"]
    if c.get("op") in (">", "!=") and _is_var(c["rhs"], d):
        return c["lhs"]
    return None


def loop_bound(fi, loop, allow_reverse=False):
    """the counting loop  for(I v(lo); v < B; ++v)  in any of its spellings (v != B, B > v; v++, v += 1, v = v + 1; the same
    induction written as  I v(lo); while(v < B) { ...; ++v; }  with the step as the last statement of the body and no other
    assignment to v) -> (var decl id, lo node, B node) or None"""
    k = loop.get("k")
    if k == "For" and allow_reverse and loop.get("inc") is None:
        # the repository's own idiom for a descending loop over [0, B):  for(I v(B); v > 0; ) { --v; ... }
        init, c = loop.get("init"), loop.get("c")
        body = loop.get("body") or {}
        st = body.get("s", []) if body.get("k") == "Block" else [body]
        if init and init.get("k") == "Decl" and len(init.get("vars", [])) == 1 and c is not None and c.get("k") == "Bin" and st:
            v = init["vars"][0]
            down = st[0].get("k") == "Un" and st[0].get("op") == "--" and _is_var(st[0].get("e"), v["d"])
            cond = (c.get("op") in (">", "!=") and _is_var(c["lhs"], v["d"]) and fi.role(c["rhs"]) == ("const", 0.0)) or \
                   (c.get("op") == "<" and _is_var(c["rhs"], v["d"]) and fi.role(c["lhs"]) == ("const", 0.0))
            others = [x for x in walk(body) if x is not st[0] and ((x.get("k") == "Assign" and _is_var(x.get("lhs"), v["d"])) or
                                                                   (x.get("k") == "Un" and x.get("op") in ("++", "--", "&") and _is_var(x.get("e"), v["d"])))]
            if down and cond and not others and v.get("init") is not None and not any(x.get("k") == "Continue" for x in walk(body)):
                return (v["d"], {"k": "Int", "v": "0", "l": loop.get("l")}, v["init"])
        return None
    if k == "For":
        init, c, inc = loop.get("init"), loop.get("c"), loop.get("inc")
        if not init or init.get("k") != "Decl" or len(init.get("vars", [])) != 1:
            return None
        v = init["vars"][0]
        hi = _upper_bound(c, v["d"])
        if hi is None or not _is_step_up(fi, inc, v["d"]):
            return None
        if c.get("op") == "!=" and fi.role(v.get("init")) != ("const", 0.0):
            return None
        if any(x is not inc and ((x.get("k") == "Assign" and _is_var(x.get("lhs"), v["d"])) or (x.get("k") == "Un" and x.get("op") in ("++", "--") and _is_var(x.get("e"), v["d"])))
               for x in walk(loop.get("body"))):
            return None
        return (v["d"], v.get("init"), hi)
    if k == "While":
        c = loop.get("c")
        if c is None or c.get("k") != "Bin":
            return None
        cand = c["lhs"] if c.get("op") in ("<", "!=") else c["rhs"] if c.get("op") == ">" else None
        if cand is None or cand.get("k") != "Ref" or cand.get("dk") != "local" or cand.get("d") not in fi.vars:
            return None
        d = cand["d"]
        hi = _upper_bound(c, d)
        body = loop.get("body") or {}
        st = body.get("s", []) if body.get("k") == "Block" else [body]
        if hi is None or not st or not _is_step_up(fi, st[-1], d):
            return None
        steps = [x for x in walk(body) if (x.get("k") == "Assign" and _is_var(x.get("lhs"), d)) or (x.get("k") == "Un" and x.get("op") in ("++", "--") and _is_var(x.get("e"), d))]
        if len(steps) != 1 or any(x.get("k") in ("Continue",) for x in walk(body)):
            return None
        # the only other definition of v is its declaration, which must be a sibling statement before the loop
        par = fi.parent.get(id(loop))
        sib = par.get("s", []) if par is not None and par.get("k") == "Block" else []
        decl_ok = False
        for x in sib:
            if x is loop:
                break
            if x.get("k") == "Decl" and any(v.get("d") == d for v in x.get("vars", [])):
                decl_ok = True
            elif decl_ok and any(y.get("k") == "Ref" and y.get("d") == d for y in walk(x)):
                decl_ok = False                      # v is touched between declaration and loop: give up
                break
        others = [x for x in fi.fn.nodes() if ((x.get("k") == "Assign" and _is_var(x.get("lhs"), d)) or (x.get("k") == "Un" and x.get("op") in ("++", "--", "&") and _is_var(x.get("e"), d))) and x is not steps[0]]
        if not decl_ok or others:
            return None
        if c.get("op") == "!=" and fi.role(fi.vars[d].get("init")) != ("const", 0.0):
            return None
        return (d, fi.vars[d].get("init"), hi)
    return None


STD_FILL = re.compile(r"^std::(fill|fill_n)$")
STD_COPY = re.compile(r"^std::(copy|copy_n)$")
C_MEM = re.compile(r"^(std::)?(memcpy|memmove|memset)$")
STD_TRANSFORM = re.compile(r"^std::transform$")


def may_initialise(bydecl, callee, pidx_, depth=0):
    """can the repository function `callee` define (overwrite without reading) the array it receives as parameter #pidx_?
    False only if its body is known and every store through that pointer reads the same array (r[i] = f(r[i])), and
    every callee it hands the pointer to is of the same kind"""
    if callee is None or callee.body is None or depth > 3 or pidx_ >= len(callee.params):
        return True
    fi = FnInfo(callee)
    mine = {callee.params[pidx_]["d"]}
    changed = True
    while changed:
        changed = False
        for d, v in fi.vars.items():
            init = v.get("init")
            while init is not None and (init.get("k") == "Cast" or (init.get("k") == "Bin" and init.get("op") in ("+", "-"))):
                init = init.get("e") if init.get("k") == "Cast" else init.get("lhs")
            if d not in mine and init is not None and init.get("k") == "Ref" and init.get("d") in mine:
                mine.add(d)
                changed = True

    def base(n):
        while n is not None and (n.get("k") == "Cast" or (n.get("k") == "Bin" and n.get("op") in ("+", "-"))):
            n = n.get("e") if n.get("k") == "Cast" else n.get("lhs")
        return n.get("d") if n is not None and n.get("k") == "Ref" else None
    for n in callee.nodes():
        k = n.get("k")
        if k == "Assign" and n.get("op") == "=":
            l = n.get("lhs") or {}
            tgt = None
            if l.get("k") == "Index":
                tgt = base(l.get("b"))
            elif l.get("k") == "OpCall" and l.get("op") == "[]" and l.get("a"):
                tgt = base(l["a"][0])
            elif l.get("k") == "Un" and l.get("op") == "*":
                tgt = base(l.get("e"))
            if tgt in mine and not any(x.get("k") == "Ref" and x.get("d") in mine for x in walk(n["rhs"])):
                return True
        elif k in ("Call", "MCall", "Construct", "TempObj"):
            for i, a in enumerate(n.get("a", [])):
                if base(a) in mine:
                    cal = n.get("callee", "") or ""
                    pts = n.get("pt", [])
                    t = callee.type(pts[i]).strip() if i < len(pts) else ""
                    if t and t.startswith("const "):
                        continue
                    if re.search(r"MemoryPool::(set_memory|copy)$", cal) or STD_FILL.match(cal) or STD_COPY.match(cal) or C_MEM.match(cal):
                        if i == 0 or STD_COPY.match(cal):
                            return True
                        continue
                    if may_initialise(bydecl, bydecl.get(n.get("cdecl")), i, depth + 1):
                        return True
    return False


def rule_e2(ck, agg, facts, alias_viol=(), bydecl=None):
    """index kinds in the CSR-family and dense generic kernels.  Kinds: Row (loop over [0,rows) or row_numbers[.]),
    Col (loop over [0,columns) or col_ind[.]), NZ (loop over [row_ptr[k], row_ptr[k+1])).  r and x are subscripted in
    the kind of their space (r: Row, x: Col; swapped under transposed); val/col_ind in NZ; the initialisation of r
    covers exactly the extent of r.  Decided on the kernel with its helpers inlined; the transposed flag of a
    statement and the conditions of the initialisation are path conditions (formulas), not branch shapes."""
    bydecl = bydecl or {}
    kernels = [f for f in facts.functions if f.cls == "FEAT::LAFEM::Arch::Apply" and f.tk != "pattern" and f.name.endswith("_generic")]
    names = {f.name for f in kernels}
    for need in ("csr_generic", "cscr_generic", "bcsr_generic", "bcsr_transposed_generic", "csrsb_generic", "dense_generic", "dense_transposed_generic", "banded_generic", "banded_transposed_generic"):
        if need not in names:
            ck.incomplete("E2.kernel-kinds", "kernel Arch::Apply::%s not instantiated" % need)
    for f0 in kernels:
        key = "Arch::Apply::%s" % f0.name
        dfile = display_file(f0)
        cfg = f0.cfg
        # (a) the kernel returns normally
        has_exit = cfg is not None and bool(cfg.normal_exit_preds()) and any(b in cfg.reachable() for b in cfg.normal_exit_preds())
        agg.add("E2.kernel-returns", key, has_exit, "kernel has a normal exit" if has_exit else
                "kernel has no normal exit (every path ends in a noreturn call): the operation offered by the container always aborts", dfile, f0.line, inst=f0.full)
        if not has_exit:
            continue
        f = inline_kernel(f0, bydecl)
        fi = FnInfo(f)
        try:
            _rule_e2_kernel(ck, agg, f, fi, key, dfile, alias_viol, bydecl)
        except TooManyAtoms as e_:
            ck.incomplete("E2.kernel-init", "%s: %s independent branch conditions: path conditions not enumerated" % (key, e_))


def _rule_e2_kernel(ck, agg, f, fi, key, dfile, alias_viol, bydecl):
        banded = f.name.startswith("banded")
        pname = {p["d"]: p["n"] for p in f.params}
        pidx = {p["n"]: i for i, p in enumerate(f.params)}
        tflag = "transposed" in pidx
        transposed_kernel = f.name.endswith("_transposed_generic")
        cnf, fl = reach_map(f, fi)
        tform = cnf.formula({"k": "Ref", "dk": "param", "d": f.params[pidx["transposed"]]["d"], "n": "transposed", "t": f.params[pidx["transposed"]]["t"]}) if tflag else None
        # pointer aliases: br = reinterpret_cast<...>(r) etc.
        alias = {}
        for d, v in fi.vars.items():
            init = v.get("init")
            while init is not None and init.get("k") == "Cast":
                init = init.get("e")
            if init is not None and init.get("k") == "Ref" and init.get("dk") == "param" and "*" in f.type(v.get("t")) and d not in fi.assigned:
                alias[d] = pname.get(init["d"])

        def base_name(n):
            while n is not None and n.get("k") == "Cast":
                n = n.get("e")
            if n is not None and n.get("k") == "Ref":
                if n.get("dk") == "param":
                    return pname.get(n.get("d"))
                if n.get("d") in alias:
                    return alias[n["d"]]
            return None

        def reach_of(n):
            cur = n
            while cur is not None:
                if id(cur) in fl.reach:
                    return fl.reach[id(cur)]
                cur = fi.parent.get(id(cur))
            return T

        def flag_of(n):
            """value of `transposed` on the paths reaching n: True / False / None (both) / 'dead'"""
            r = reach_of(n)
            cons = cnf.exclusions()
            if tform is None:
                return None if f_sat(r, cons) is not None else "dead"
            st = f_sat(f_and(r, tform), cons) is not None
            sf = f_sat(f_and(r, f_not(tform)), cons) is not None
            if st and sf:
                return None
            if st:
                return True
            if sf:
                return False
            return "dead"

        # loop environment
        def env_of(n):
            """kinds of the loop variables enclosing node n"""
            kinds = {}
            cur = n
            while id(cur) in fi.parent:
                p = fi.parent[id(cur)]
                if p.get("k") in ("For", "While"):
                    lb = loop_bound(fi, p, allow_reverse=True)
                    if lb is not None and p.get("body") is not None and (cur is p["body"] or cur is not p.get("init")):
                        d, lo, hi = lb
                        kinds[d] = ("loop", lo, hi)
                cur = p
            return kinds

        def kind(n, kinds, depth=0):
            """index kind of expression n"""
            n = fi.resolve(n)
            k = n.get("k")
            if k == "Cast":
                return kind(n["e"], kinds, depth + 1)
            if k == "Ref" and n.get("d") in kinds:
                _, lo, hi = kinds[n["d"]]
                hr = fi.role(hi)
                lr = fi.role(lo) if lo is not None else ("?", "")
                if hr[0] == "param" and lr == ("const", 0.0):
                    nm = f.params[hr[1]]["n"]
                    return {"rows": "Row", "columns": "Col", "used_rows": "URow"}.get(nm, "?" + nm)
                # [row_ptr[k], row_ptr[k+1])
                lo_r, hi_r = fi.resolve(lo) if lo is not None else {}, fi.resolve(hi)
                while lo_r.get("k") == "Cast":
                    lo_r = fi.resolve(lo_r["e"])
                while hi_r.get("k") == "Cast":
                    hi_r = fi.resolve(hi_r["e"])
                if lo_r.get("k") == "Index" and hi_r.get("k") == "Index" and base_name(lo_r["b"]) == "row_ptr" and base_name(hi_r["b"]) == "row_ptr":
                    a, b = lo_r["idx"], fi.resolve(hi_r["idx"])
                    plus1 = b.get("k") == "Bin" and b.get("op") == "+" and (
                        (render(fi.resolve(b["lhs"])) == render(fi.resolve(a)) and fi.role(b["rhs"]) == ("const", 1.0)) or
                        (render(fi.resolve(b["rhs"])) == render(fi.resolve(a)) and fi.role(b["lhs"]) == ("const", 1.0)))
                    if plus1:
                        ka = kind(a, kinds, depth + 1)
                        if ka in ("Row", "URow"):
                            return "NZ"
                return "?"
            if k == "Index":
                b = base_name(n["b"])
                ik = kind(n["idx"], kinds, depth + 1)
                if b == "col_ind" and ik == "NZ":
                    return "Col"
                if b == "row_numbers" and ik == "URow":
                    return "Row"
                return "?"
            if k == "Bin" and n.get("op") == "+":
                # dense: row * columns + col (either order of the summands / factors)
                for l, r in ((n["lhs"], n["rhs"]), (n["rhs"], n["lhs"])):
                    l = fi.resolve(l)
                    if l.get("k") == "Bin" and l.get("op") == "*":
                        for m1, m2 in ((l["lhs"], l["rhs"]), (l["rhs"], l["lhs"])):
                            k1, k2, pr = kind(m1, kinds, depth + 1), kind(r, kinds, depth + 1), fi.role(m2)
                            if k1 in ("Row", "Col") and k2 in ("Row", "Col") and pr[0] == "param" and f.params[pr[1]]["n"] in ("rows", "columns"):
                                pitch = f.params[pr[1]]["n"]
                                if (k1, pitch, k2) == ("Row", "columns", "Col"):
                                    return "RowCol"     # row-major storage of a rows x columns matrix
                                return "%s*%s+%s" % (k1, pitch, k2)
                return "?"
            return "?"

        def ptr_plus(n, base):
            """n == base + N  ->  N node"""
            n = fi.resolve(n)
            if n.get("k") == "Bin" and n.get("op") == "+":
                if base_name(fi.resolve(n["lhs"])) == base:
                    return n["rhs"]
                if base_name(fi.resolve(n["rhs"])) == base:
                    return n["lhs"]
            return None

        if not banded:
            bad = []
            unknown = []
            nsub = 0
            for n in f.nodes():
                subs = []
                if n.get("k") == "Index":
                    subs.append((n["b"], n["idx"]))
                elif n.get("k") == "OpCall" and n.get("op") == "[]" and len(n.get("a", [])) == 2:
                    subs.append((n["a"][0], n["a"][1]))
                for b, idx in subs:
                    bn = base_name(b)
                    if bn not in ("r", "x", "y", "val", "col_ind", "row_numbers"):
                        continue
                    kinds = env_of(n)
                    flag = flag_of(n)
                    if flag == "dead":
                        continue
                    kd = kind(idx, kinds)
                    if tflag and flag is None and bn in ("r", "x"):
                        if kd.startswith("?"):
                            unknown.append("%s[%s] (line %s)" % (bn, render(idx), n.get("l")))
                        else:
                            bad.append("%s[%s] (kind %s) is reached with transposed true and with transposed false (line %s): wrong for one of them" % (bn, render(idx), kd, n.get("l")))
                        continue
                    t_eff = transposed_kernel or (flag is True)
                    want = {"r": "Col" if t_eff else "Row", "x": "Row" if t_eff else "Col", "y": "Col" if t_eff else "Row",
                            "val": "NZ", "col_ind": "NZ", "row_numbers": "URow"}[bn]
                    if f.name.startswith("dense") and bn == "val":
                        want = "RowCol"
                    nsub += 1
                    if kd.startswith("?"):
                        unknown.append("%s[%s] (line %s)" % (bn, render(idx), n.get("l")))
                    elif kd != want:
                        bad.append("%s[%s] is indexed by kind %s, expected %s%s (line %s)" % (bn, render(idx), kd, want, " in the transposed product" if t_eff else "", n.get("l")))
            # iterator ranges [p, p + N) over r/x/y handed to a standard algorithm: N is the extent of that array
            for c in f.calls():
                if c.get("k") != "Call" or not (c.get("callee", "") or "").startswith("std::"):
                    continue
                args = c.get("a", [])
                for i_ in range(len(args) - 1):
                    bn = base_name(fi.resolve(args[i_]))
                    if bn not in ("r", "x", "y"):
                        continue
                    nn = ptr_plus(args[i_ + 1], bn)
                    if nn is None:
                        continue
                    flag = flag_of(c)
                    if flag == "dead":
                        continue
                    m_ = fi.resolve(nn)
                    while m_.get("k") == "Cast":
                        m_ = fi.resolve(m_["e"])
                    if m_.get("k") == "Bin" and m_.get("op") == "*":
                        m_ = fi.resolve(m_["lhs"]) if fi.role(m_["rhs"])[0] == "const" else fi.resolve(m_["rhs"]) if fi.role(m_["lhs"])[0] == "const" else m_
                    rr = fi.role(m_)
                    kd = {"rows": "Row", "columns": "Col"}.get(f.params[rr[1]]["n"], "?") if rr[0] == "param" else "?"
                    what = "range [%s, %s + %s) in %s" % (render(args[i_])[:20], render(args[i_])[:20], render(fi.resolve(nn))[:30], c.get("callee"))
                    if kd == "?" or (tflag and flag is None):
                        unknown.append("%s (line %s)" % (what, c.get("l")))
                        continue
                    t_eff = transposed_kernel or (flag is True)
                    want = {"r": "Col" if t_eff else "Row", "x": "Row" if t_eff else "Col", "y": "Col" if t_eff else "Row"}[bn]
                    nsub += 1
                    if kd != want:
                        bad.append("%s has the extent of kind %s, expected %s%s (line %s)" % (what, kd, want, " in the transposed product" if t_eff else "", c.get("l")))
            if unknown:
                ck.incomplete("E2.kernel-kinds", "%s: index expression(s) of unrecognised kind (loop shape not modelled): %s" % (key, "; ".join(unknown[:4])))
            agg.add("E2.kernel-kinds", key, not bad and (nsub > 0 or bool(unknown)), "; ".join(bad[:4]) if bad else ("%d subscripts of r/x/val/col_ind in the kind of their index space" % nsub if nsub else "no subscripts recognised"),
                    dfile, f.line, inst=f.full)
        # (offset arithmetic of the banded kernel: rule E2.banded-interval; its initialisation of r is decided here like the others)

        # (c) initialisation of r.  Contract (callers, rule E1.role): the 2-operand forms pass b = 0 and y = r, the
        # 4-operand forms b = 1 and y possibly aliasing r.  Hence: for |b| < eps r must be zero-filled over its whole
        # extent whatever y is; otherwise, when r != y, y must be copied into r over the whole extent.
        ibad, iinc = [], []
        rblock = None
        for d, v in fi.vars.items():
            if alias.get(d) == "r":
                m = re.search(r"Tiny::Vector<[^,]+, (\d+)", f.type(v.get("t")))
                if m:
                    rblock = int(m.group(1))
        scale = "" if not rblock else "*%d" % rblock
        bslot = next((pidx[s_] for s_ in BETA_SLOTS if s_ in pidx), None)

        def ext(n):
            n = fi.resolve(n)
            while n.get("k") == "Cast":
                n = fi.resolve(n["e"])
            if n.get("k") == "Cond" and tflag:
                c = cnf.formula(n["c"])
                if c == tform:
                    return (ext(n["then"]), ext(n["else"]))
                if c == f_not(tform):
                    return (ext(n["else"]), ext(n["then"]))
                return "?"
            if n.get("k") == "Bin" and n.get("op") == "*":
                for x, y in ((n["lhs"], n["rhs"]), (n["rhs"], n["lhs"])):
                    l, r = ext(x), fi.role(y)
                    if isinstance(l, str) and l != "?" and r[0] == "const":
                        return "%s*%d" % (l, int(r[1]))
                return "?"
            r = fi.role(n)
            if r[0] == "param":
                return f.params[r[1]]["n"]
            return "?"

        def ext_ok(e, flag):
            """-> True / False / None (unknown expression)"""
            if tflag:
                want = ("columns" + scale, "rows" + scale)
                if isinstance(e, tuple):
                    if "?" in e:
                        return None, want
                    return e == want, want
                if e == "?":
                    return None, want
                if flag in (True, False):
                    return e == (want[0] if flag else want[1]), (want[0] if flag else want[1])
                return False, want
            want = ("columns" if transposed_kernel else "rows") + scale
            if e == "?":
                return None, want
            return e == want, want

        events, writers = [], []
        consumed = set()
        for c in f.calls():
            if c.get("k") != "Call":
                continue
            cal = c.get("callee", "") or ""
            a = c.get("a", [])
            nm = cal.rsplit("::", 1)[-1]
            if re.search(r"MemoryPool::(set_memory|copy)$", cal) and len(a) >= 3 and base_name(fi.resolve(a[0])) == "r":
                events.append({"kind": "fill" if nm == "set_memory" else "copy", "node": c, "src": a[1], "n": a[2], "what": nm})
                consumed.add(id(c))
            elif STD_FILL.match(cal) and len(a) == 3 and base_name(fi.resolve(a[0])) == "r":
                cnt = a[1] if nm == "fill_n" else ptr_plus(a[1], "r")
                events.append({"kind": "fill", "node": c, "src": a[2], "n": cnt, "what": "std::" + nm})
                consumed.add(id(c))
            elif STD_COPY.match(cal) and len(a) == 3 and base_name(fi.resolve(a[2])) == "r":
                srcb = fi.resolve(a[0])
                cnt = a[1] if nm == "copy_n" else ptr_plus(a[1], base_name(srcb) or "\0")
                events.append({"kind": "copy", "node": c, "src": a[0], "n": cnt, "what": "std::" + nm})
                consumed.add(id(c))
        # hand loops  for(i = 0; i < N; ++i) r[i] = 0 | y[i];
        for n in f.nodes():
            if n.get("k") != "For":
                continue
            lb = loop_bound(fi, n)
            body = n.get("body")
            while body is not None and body.get("k") == "Block" and len(body.get("s", [])) == 1:
                body = body["s"][0]
            if lb is None or body is None or body.get("k") != "Assign" or body.get("op") != "=":
                continue
            l = body.get("lhs") or {}
            if l.get("k") != "Index" or base_name(fi.resolve(l["b"])) != "r" or fi.resolve(l["idx"]).get("d") != lb[0]:
                continue
            if fi.role(lb[1]) != ("const", 0.0):
                continue
            rhs = fi.resolve(body["rhs"])
            if fi.role(rhs) == ("const", 0.0):
                events.append({"kind": "fill", "node": n, "src": rhs, "n": lb[2], "what": "zero loop", "stmt": body})
                consumed.add(id(body))
            elif rhs.get("k") == "Index" and fi.resolve(rhs["idx"]).get("d") == lb[0] and base_name(fi.resolve(rhs["b"])) is not None:
                events.append({"kind": "copy", "node": n, "src": rhs["b"], "n": lb[2], "what": "copy loop", "stmt": body})
                consumed.add(id(body))
        # other potential initialisers of r: calls receiving r mutably, stores that overwrite r without reading it
        for c in f.calls():
            if id(c) in consumed or c.get("k") not in ("Call", "MCall"):
                continue
            pts = c.get("pt", [])
            for i, a in enumerate(c.get("a", [])):
                if base_name(fi.resolve(a)) == "r" or ptr_plus(a, "r") is not None:
                    t = f.type(pts[i]).strip() if i < len(pts) else ""
                    if not t or (("*" in t or "&" in t) and not t.startswith("const ")):
                        if STD_TRANSFORM.match(c.get("callee", "") or "") and i > 0 and base_name(fi.resolve(c["a"][0])) == "r":
                            continue          # in-place transform of r: every new value is computed from the old one, not an initialisation
                        if may_initialise(bydecl, bydecl.get(c.get("cdecl")), i):
                            writers.append((c, "r is passed to the mutable parameter #%d of %s" % (i, c.get("callee", "?"))))
        for n in f.nodes():
            if n.get("k") == "Assign" and n.get("op") == "=" and id(n) not in consumed:
                l = n.get("lhs") or {}
                tgt = None
                if l.get("k") == "Index":
                    tgt = base_name(fi.resolve(l["b"]))
                elif l.get("k") == "OpCall" and l.get("op") == "[]" and l.get("a"):
                    tgt = base_name(fi.resolve(l["a"][0]))
                elif l.get("k") == "Un" and l.get("op") == "*":
                    tgt = base_name(fi.resolve(l["e"]))
                if tgt == "r" and not any(x.get("k") == "Ref" and (pname.get(x.get("d")) == "r" or alias.get(x.get("d")) == "r") for x in walk(n["rhs"])):
                    writers.append((n, "store '%s' overwrites r without reading it" % render(n)[:50]))

        cons = cnf.exclusions()
        live = lambda n: f_sat(reach_of(n), cons) is not None
        # atoms of the contract
        bz_pos, bz_neg, ne = [], [], None
        for akey, info in list(cnf.atom_info.items()):
            if info.get("kind") == "lt" and bslot is not None:
                if _is_abs_of(fi, info["a"], ("param", bslot)) and _is_eps(fi, info["b"]):
                    bz_pos.append(akey)
                elif _is_eps(fi, info["a"]) and _is_abs_of(fi, info["b"], ("param", bslot)):
                    bz_neg.append(akey)
            if info.get("kind") == "eq" and {base_name(fi.resolve(info["a"])), base_name(fi.resolve(info["b"]))} == {"r", "y"}:
                ne = f_not(f_atom(akey))
        for pz in bz_pos:
            for ng in bz_neg:
                cons = f_and(cons, f_not(f_and(f_atom(pz), f_atom(ng))))
        # an empty r needs no initialisation (`if (rows == 0) return;` shortcut): assume the extent of r is non-zero
        for akey, info in list(cnf.atom_info.items()):
            if info.get("kind") == "z":
                r_ = fi.role(info["e"])
                nm_ = f.params[r_[1]]["n"] if r_[0] == "param" else None
                if nm_ == "rows" and not transposed_kernel:
                    cons = f_and(cons, f_or(tform, f_not(f_atom(akey))) if tform is not None else f_not(f_atom(akey)))
                elif nm_ == "columns" and (transposed_kernel or tform is not None):
                    cons = f_and(cons, f_or(f_not(tform), f_not(f_atom(akey))) if tform is not None else f_not(f_atom(akey)))
        if bz_pos or bz_neg:
            Bz = f_and(*([f_atom(k_) for k_ in bz_pos] + [f_not(f_atom(k_)) for k_ in bz_neg]))
        else:
            Bz = cnf._mk(("lt", "|b|", "eps"), kind="synthetic")
        if ne is None:
            ne = f_not(cnf._mk(("eq", "r", "y"), kind="synthetic"))
        known = set(bz_pos) | set(bz_neg) | f_atoms(ne) | f_atoms(Bz) | (f_atoms(tform) if tform is not None else set())

        def independent(akey):
            """the atom is a test on input parameters other than b, r, y (independent inputs: both outcomes are admissible)"""
            info = cnf.atom_info.get(akey, {})
            nodes_ = [info.get(x_) for x_ in ("e", "a", "b") if isinstance(info.get(x_), dict)]
            if not nodes_ or info.get("kind") in ("loop", "case", "opaque", "synthetic"):
                return info.get("kind") in ("loop", "case")
            for nd in nodes_:
                for x_ in walk(fi.resolve(nd)):
                    if x_.get("k") == "Ref":
                        y_ = fi.resolve(x_)
                        if y_.get("k") != "Ref" or y_.get("dk") != "param" or pname.get(y_.get("d")) in ("r", "y") + BETA_SLOTS:
                            return False
                    elif x_.get("k") in ("MCall", "Member", "Index", "This"):
                        return False
            return True

        def names(w):
            parts = []
            for k_, v in sorted(w.items(), key=lambda kv: repr(kv[0])):
                if k_ in bz_pos or k_ == ("lt", "|b|", "eps"):
                    parts.append("|b| < eps" if v else "|b| >= eps")
                elif k_ in bz_neg:
                    parts.append("|b| > eps" if v else "|b| <= eps")
                elif k_ in f_atoms(ne):
                    parts.append("r == y" if v else "r != y")
                elif tform is not None and k_ in f_atoms(tform):
                    parts.append("transposed" if v else "!transposed")
                elif k_[0] not in ("loop", "case"):
                    parts.append(("%s" if v else "!(%s)") % ZeroAtoms._name(k_, {}))
            return ", ".join(parts) or "always"

        fills, copies = F, F
        for ev in events:
            c = ev["node"]
            flag = flag_of(c)
            if flag == "dead":
                continue
            r_ev = reach_of(c)
            if ev["n"] is None:
                iinc.append("%s: extent of '%s' not recognised (line %s)" % (key, render(c)[:60], c.get("l")))
                okx = None
            else:
                e = ext(ev["n"])
                okx, want = ext_ok(e, flag)
                if okx is None:
                    iinc.append("%s: %s initialises r over '%s': extent expression not recognised (line %s)" % (key, ev["what"], render(fi.resolve(ev["n"]))[:60], c.get("l")))
                elif not okx:
                    ibad.append("%s initialises r over %s, expected %s (line %s)" % (ev["what"], e, want, c.get("l")))
            if ev["kind"] == "fill":
                fills = f_or(fills, r_ev)
                if fi.role(ev["src"]) != ("const", 0.0):
                    ibad.append("r is filled with %s instead of 0 for b = 0 (line %s)" % (render(ev["src"]), c.get("l")))
                v, w = decide(f_and(r_ev, f_not(Bz)), cons, universal=[k_ for k_ in f_atoms(r_ev) if k_ not in known and not independent(k_)])
                if v != "unsat":
                    (ck.note if f.name in alias_viol else iinc.append)("%s: zero fill of r is reachable with |b| >= eps (%s) (line %s)" % (key, names(w), c.get("l")))
            else:
                if base_name(fi.resolve(ev["src"])) != "y":
                    ibad.append("copy initialises r from '%s', expected y (line %s)" % (render(ev["src"]), c.get("l")))
                copies = f_or(copies, r_ev)
        lw = [(n, why) for n, why in writers if live(n)]

        def require(cond, have, msg):
            unknown = [k_ for k_ in f_atoms(f_and(cond, f_not(have))) if k_ not in known and not independent(k_)]
            v, w = decide(f_and(cond, f_not(have)), cons, universal=unknown)
            if v == "unsat":
                return
            if v == "depends":
                iinc.append("%s: %s — depends on a condition the rule does not recognise" % (key, msg % names(w)))
            elif lw:
                iinc.append("%s: %s by set_memory/copy, but %s (line %s): initialisation by that construct is not modelled" % (key, msg % names(w), lw[0][1], lw[0][0].get("l")))
            else:
                ibad.append((msg % names(w)) + (" [initialisations found: %s]" % ", ".join("%s line %s" % (e_["what"], e_["node"].get("l")) for e_ in events) if events else " [no set_memory/copy of r found]"))
        require(Bz, fills, "for |b| < eps (the 2-operand forms pass b = 0 and y = r) r is not zero-filled when %s: the old content of r (NaN/inf) enters the result")
        require(f_and(f_not(Bz), ne), copies, "for b != 0 and r != y the summand y is not copied into r when %s")
        for m in iinc:
            (ck.note if f.name in alias_viol else lambda m_: ck.incomplete("E2.kernel-init", m_))(m)
        agg.add("E2.kernel-init", key, not ibad, "; ".join(ibad) if ibad else "r is zero-filled for |b| < eps and receives y otherwise, over exactly the extent of r (%d initialisation(s))" % len(events), dfile, f.line, inst=f.full)


# --------------------------------------------------------------------------------------------------
# E2.banded-interval: the band helpers start_offset/end_offset and all their consumers (generic and
# template-unrolled path) agree on one half-open row-interval convention
# --------------------------------------------------------------------------------------------------

def lin(fi, n, depth=0):
    """integer-linear normal form {symbol: coeff, 1: const} over parameter names, or None"""
    if n is None or depth > 12:
        return None
    n = fi.resolve(n)
    k = n.get("k")
    if k == "Int":
        try:
            return {1: int(str(n.get("v")))}
        except ValueError:
            return None
    if k == "Cast" and n.get("ck") in ("functional", "static", "cstyle"):
        return lin(fi, n.get("e"), depth + 1)
    if k in ("Construct", "TempObj") and len(n.get("a", [])) == 1:
        return lin(fi, n["a"][0], depth + 1)
    if k == "Un" and n.get("op") in ("-", "+"):
        e = lin(fi, n.get("e"), depth + 1)
        if e is None:
            return None
        return e if n["op"] == "+" else {s: -c for s, c in e.items()}
    if k == "Ref":
        if n.get("v") is not None and n.get("dk") != "param":
            try:
                return {1: int(str(n.get("v")))}
            except ValueError:
                return None
        if n.get("dk") == "param":
            return {n.get("n"): 1}
        if n.get("dk") == "local":
            return {"$%s#%s" % (n.get("n"), n.get("d")): 1}      # a variable local (loop counter): opaque symbol
        return None
    if k == "Bin" and n.get("op") in ("+", "-"):
        a, b = lin(fi, n["lhs"], depth + 1), lin(fi, n["rhs"], depth + 1)
        if a is None or b is None:
            return None
        out = dict(a)
        sg = 1 if n["op"] == "+" else -1
        for s, c in b.items():
            out[s] = out.get(s, 0) + sg * c
        return {s: c for s, c in out.items() if c != 0 or s == 1}
    if k == "Bin" and n.get("op") == "*":
        a, b = lin(fi, n["lhs"], depth + 1), lin(fi, n["rhs"], depth + 1)
        if a is None or b is None:
            return None
        if set(a) <= {1}:
            return {s: c * a.get(1, 0) for s, c in b.items()}
        if set(b) <= {1}:
            return {s: c * b.get(1, 0) for s, c in a.items()}
    return None


def lin_norm(d):
    return None if d is None else tuple(sorted((str(s), c) for s, c in d.items() if c != 0))


def lin_str(d):
    if d is None:
        return "?"
    t = [("%s" % str(s).split("#")[0].lstrip("$") if c == 1 else "%d*%s" % (c, str(s).split("#")[0].lstrip("$"))) for s, c in d.items() if s != 1 and c != 0]
    if d.get(1, 0) != 0 or not t:
        t.append(str(d.get(1, 0)))
    return " + ".join(t)


BAND_HELPERS = ("start_offset", "end_offset")


def helper_sentinels(h):
    """band helper H(i, offsets, rows, columns, noo): value returned for the sentinel bands i == Index(-1) ("before the
    first band") and i == noo ("behind the last band") as linear forms over the helper's parameter names"""
    fi = FnInfo(h)
    out = {}
    for n in h.nodes():
        if n.get("k") != "If":
            continue
        c = fi.resolve(n["c"])
        if c.get("k") != "Bin" or c.get("op") != "==":
            continue
        l, r = lin(fi, c["lhs"]), lin(fi, c["rhs"])
        if l is None or r is None:
            continue
        if lin_norm(r) == lin_norm({h.params[0]["n"]: 1}):
            l, r = r, l
        if lin_norm(l) != lin_norm({h.params[0]["n"]: 1}):
            continue
        which = "-1" if lin_norm(r) == lin_norm({1: -1}) else "noo" if lin_norm(r) == lin_norm({"noo": 1}) else None
        rets = [x for x in walk(n.get("then")) if x.get("k") == "Return"]
        if which and len(rets) == 1:
            out[which] = lin(fi, rets[0].get("e"))
    return out


def rule_banded(ck, agg, tier):
    R = "E2.banded-interval"
    archfiles = featlib.repo_path(LAFEM + "arch/")
    fsets = []
    for extra, label in (((), "default build"), (("-DFEAT_UNROLL_BANDED",), "-DFEAT_UNROLL_BANDED")):
        fx = featlib.extract("tu/c01_banded.cpp", files=archfiles, names=r"ApplyBanded|banded", extra=extra)
        ck.tu(fx)
        for e in fx.diags:
            ck.incomplete(R, "front-end error parsing the banded kernels (%s): %s:%d %s" % (label, rel(e["file"]), e["line"], e["msg"]))
        fsets.append((label, fx))
    helpers = {}
    for label, fx in fsets:
        for f in fx.functions:
            if f.name in BAND_HELPERS and "ApplyBanded" in f.qn and f.tk != "pattern":
                helpers.setdefault(f.name, []).append(f)
    for hn in BAND_HELPERS:
        if hn not in helpers:
            ck.incomplete(R, "band helper Intern::ApplyBanded::%s not found" % hn)
            return
    sent = {}
    for hn, hs in helpers.items():
        vals = {lin_norm_pair(helper_sentinels(h)) for h in hs}
        s0 = helper_sentinels(hs[0])
        if len(vals) != 1 or set(s0) != {"-1", "noo"} or any(v is None for v in s0.values()):
            ck.incomplete(R, "sentinel branches (i == Index(-1), i == noo) of %s not recognised" % hn)
            return
        sent[hn] = s0
    # consumers
    sigs = {}
    families = {}
    for label, fx in fsets:
        for f in fx.functions:
            if f.tk == "pattern" or "ApplyBanded" not in f.qn or f.name in BAND_HELPERS:
                continue
            hcalls = [c for c in f.calls() if c.get("k") == "Call" and c.get("callee", "").rsplit("::", 1)[-1] in BAND_HELPERS and "ApplyBanded" in c.get("callee", "")]
            if not hcalls:
                continue
            fam = re.sub(r"<.*?>(?=::|$)", "", f.qn.split("ApplyBanded::", 1)[-1])
            fam = re.sub(r"<.*>", "", fam)
            fi = FnInfo(f)
            dfile = display_file(f)
            used = set()

            def term(n):
                """H(args) + c -> (helper name, call, c) or None"""
                n = fi.resolve(n)
                if n.get("k") == "Cast":
                    return term(n.get("e"))
                if n.get("k") == "Call" and n in hcalls:
                    return (n["callee"].rsplit("::", 1)[-1], n, 0)
                if n.get("k") == "Bin" and n.get("op") in ("+", "-"):
                    for a, b, sg in ((n["lhs"], n["rhs"], 1), (n["rhs"], n["lhs"], 1 if n["op"] == "+" else None)):
                        t, c = term(a), lin(fi, b)
                        if t is not None and c is not None and set(c) <= {1} and sg is not None:
                            return (t[0], t[1], t[2] + (c.get(1, 0) if n["op"] == "+" else -c.get(1, 0)))
                return None

            def bound(n, fn_name):
                n = fi.resolve(n)
                if n.get("k") == "Call" and re.search(r"(^|::)(Math|std)::%s$" % fn_name, n.get("callee", "") or "") and len(n.get("a", [])) == 2:
                    ts = [term(a) for a in n["a"]]
                    if all(t is not None for t in ts) and {t[0] for t in ts} == set(BAND_HELPERS):
                        return {t[0]: t for t in ts}
                return None
            loops = []
            for n in f.nodes():
                if n.get("k") != "For":
                    continue
                lb = n.get("init"), n.get("c")
                init, c = lb
                if not init or init.get("k") != "Decl" or len(init.get("vars", [])) != 1 or not c or c.get("k") != "Bin" or c.get("op") not in ("<", "<="):
                    continue
                v = init["vars"][0]
                if not (c["lhs"].get("k") == "Ref" and c["lhs"].get("d") == v["d"]):
                    continue
                lo, hi = bound(v.get("init"), "max"), bound(c["rhs"], "min")
                if lo is None and hi is None:
                    continue
                if lo is None or hi is None:
                    ck.incomplete(R, "%s: row loop at line %s has only one bound built from the band helpers" % (fam, n.get("l")))
                    continue
                loops.append((n, lo, hi, 1 if c["op"] == "<=" else 0))
                for b in (lo, hi):
                    for t in b.values():
                        used.add(id(t[1]))
            stray = [c for c in hcalls if id(c) not in used]
            if stray or not loops:
                ck.incomplete(R, "%s (%s): %d call(s) of the band helpers outside a recognised row range [max(..), min(..)) (line %s)" % (
                    fam, f.loc, len(stray), stray[0].get("l") if stray else f.line))
                continue
            families.setdefault(fam, 0)
            families[fam] += 1
            for loop, lo, hi, incl in loops:
                sig = []
                for hn in BAND_HELPERS:
                    tl, th = lo[hn], hi[hn]
                    bad = []
                    # the helper receives the consumer's own offsets/rows/columns/band count
                    for t in (tl, th):
                        pn, a = t[1].get("pn", []), t[1].get("a", [])
                        for i, nm in enumerate(pn):
                            if nm in ("rows", "columns") and i < len(a) and lin_norm(lin(fi, a[i])) != lin_norm({nm: 1}):
                                bad.append("%s receives '%s' as %s" % (hn, render(a[i]), nm))
                    al, ah = lin(fi, tl[1]["a"][0]) if tl[1].get("a") else None, lin(fi, th[1]["a"][0]) if th[1].get("a") else None
                    if al is None or ah is None:
                        ck.incomplete(R, "%s: band argument of %s not linear (line %s)" % (fam, hn, loop.get("l")))
                        continue
                    delta = dict(ah)
                    for s, c in al.items():
                        delta[s] = delta.get(s, 0) - c
                    dn = lin_norm(delta)
                    if dn != lin_norm({1: -1}):
                        bad.append("the upper bound uses band %s and the lower bound band %s of %s: expected the preceding band (difference -1)" % (lin_str(ah), lin_str(al), hn))
                    for what, t, extra_c in (("lower", tl, 0), ("upper", th, incl)):
                        c = t[2] + extra_c
                        for which, want in (("noo", {1: 0}), ("-1", {"rows": 1})):
                            v = dict(sent[hn][which])
                            v[1] = v.get(1, 0) + c
                            if lin_norm(v) != lin_norm(want):
                                bad.append("%s bound term %s(.)%s%s evaluates to '%s' for the sentinel band %s; a half-open row range [lo,hi) needs %s" % (
                                    what, hn, (" + %d" % t[2]) if t[2] > 0 else (" - %d" % -t[2]) if t[2] < 0 else "", " (loop uses <=)" if extra_c else "",
                                    lin_str(v), "Index(-1)" if which == "-1" else "noo", lin_str(want)))
                    sig.append((hn, tl[2], th[2] + incl, dn))
                    agg.add(R, "ApplyBanded::%s/%s" % (fam, hn), not bad, "; ".join(sorted(set(bad))[:3]) if bad else
                            "rows [max(..%s(p)%+d..), min(..%s(p-1)%+d..)): sentinels give 0 and rows" % (hn, tl[2], hn, th[2] + incl), dfile, loop.get("l"), inst="%s [%s]" % (f.full.split("ApplyBanded::", 1)[-1][:60], label))
                sigs.setdefault(fam, set()).add(tuple(sig))
    for need in ("apply_banded_generic", "Iteration_Left::f"):
        if need not in families:
            ck.incomplete(R, "consumer Intern::ApplyBanded::%s of the band helpers not instantiated (generic and unrolled path are both required)" % need)
    allsig = {s for v in sigs.values() for s in v}
    if sigs:
        detail = "; ".join("%s: %s" % (fam, " | ".join("%s lo%+d hi%+d band-step %s" % (h, cl, ch, "-1" if d == lin_norm({1: -1}) else ("0" if not d else str(d))) for sg in sorted(v) for (h, cl, ch, d) in sg)) for fam, v in sorted(sigs.items()))
        f0 = helpers["end_offset"][0]
        agg.add(R, "ApplyBanded/consumers-agree", len(allsig) == 1,
                ("the consumers of start_offset/end_offset disagree on the interval convention (one of them is wrong whichever convention the helpers implement): " + detail)
                if len(allsig) != 1 else "generic and unrolled path build the same row range from the helpers (" + detail + ")", display_file(f0), f0.line)


def lin_norm_pair(d):
    return tuple(sorted((k, lin_norm(v)) for k, v in d.items()))


# --------------------------------------------------------------------------------------------------

def run(tier):
    ck = Check("C01", tier)
    _seen, _inc = set(), ck.incomplete

    def incomplete_once(rule, what):
        if (rule, what) not in _seen:
            _seen.add((rule, what))
            _inc(rule, what)
    ck.incomplete = incomplete_once
    ck.rule("E0.instantiable", "every apply/apply_transposed overload a matrix container declares type-checks for documented-supported template arguments "
            "(an overload that cannot be instantiated cannot return the product; admissible input: any call of that overload)", 132)
    ck.rule("E1.role", "at every Arch::Apply::* call site each callee parameter (r,x,y,a,b,val,col_ind,row_ptr,rows,columns,used_elements,transposed...) receives the "
            "like-named accessor of the right operand: r<-result, x<-multiplicand, y<-summand, (a,b)=(1,0) in 2-operand and (alpha,1) in 4-operand forms, matrix arrays and "
            "extents from *this in native perspective, transposed flag/kernel = method (breaks for rectangular matrices, alpha != 1, blocked operands)", 424)
    ck.rule("E1.dispatch", "every Arch::Apply::X dispatch wrapper forwards its own parameters position by position to X_generic/_mkl/_cuda (breaks for every product through that wrapper)", 9)
    ck.rule("E1.guard", "each dimension guard XASSERT(v.size() == this->rows|columns<P>()) states the role assignment of the product: r,y <-> rows, x <-> columns, swapped when "
            "transposing, in the unit (scalars/blocks) of the operand type (a wrong guard aborts admissible rectangular / blocked inputs)", 141)
    ck.rule("E7.exit-defines-r", "in every scalar container apply*, every normal exit is preceded on all feasible paths by a definition of r: the kernel call with r in slot r, "
            "r.format() (2-operand) or r.copy(y)/r.convert(y) (4-operand); path conditions are formulas over canonical condition atoms of the function with its class helpers "
            "inlined (early return, if/else, negated conditions, predicate helpers are the same program); an empty r needs no definition (breaks for matrices without entries, alpha = 0)", 36)
    ck.rule("E7.early-out", "an early-out that is the final definition of r has the form of its arity (format / copy(y)) and the condition under which it is the final definition "
            "implies a zero product (used_elements()==0, rows()/columns()==0, |alpha|<eps, alpha==0)", 32)
    ck.rule("E7.alpha-guard", "a kernel that divides by a (transposed CSR/CSCR/BCSR kernels compute b/a) is unreachable when |alpha| < eps (alpha = 0 would give inf/NaN): the path "
            "condition of the call excludes |alpha| < eps, or the kernel reaches its division only behind its own |a| < eps test", 7)
    ck.rule("C6.inputs-const", "every apply* is a const member taking x and y as const references and contains no cast that removes constness (inputs are never modified)", 132)
    ck.rule("C6.early-out-copy", "a 4-operand early-out defines r by a VALUE copy of y (MemoryPool::copy into r's own array), never by an operation that stores y's element pointer in r "
            "(shallow convert/assign): decided on the resolved callee body (admissible input: alpha = 0 or an entry-free matrix, followed by any write to r — y must stay unmodified)", 19)
    ck.rule("E4.view-nonempty", "the range-view constructor DenseVector(dv,size,offset) asserts size > 0; at every call site in a flat apply* overload that precondition is established "
            "(constant, XASSERT or enclosing if on the same extent) — rows()/columns() of a sub-block may be 0 (admissible input: meta matrix with an empty sub-block)", 20)
    ck.rule("C6.view-alias", "range views DenseVector(x|y, n, off) alias the input through a const_cast in the constructor: they only occur in const callee positions", 18)
    ck.rule("C6.kernel-const", "in every Arch::Apply kernel/wrapper only the first pointer (r) is writable and no cast removes constness", 21)
    ck.rule("E4.parity", "a meta matrix forwards apply to apply and apply_transposed to apply_transposed on every block (wrong for every non-symmetric block)", 152)
    ck.rule("E4.matvec", "each block term (block(i,j), result component, x component, y, alpha) matches the block structure of the class: apply r_i (+)= B_ij x_j, "
            "transposed r_j (+)= B_ij^T x_i; the first term of a result component is the defining form (y-component of the same index, alpha), later terms accumulate onto "
            "the same result component with the same alpha; DenseVector range views have length/offset equal to the extents of the blocks they cover", 152)
    ck.rule("E4.blocks", "every block of the class structure is applied exactly once per apply* (a dropped block loses a term for every input)", 96)
    ck.rule("E4.view-perspective", "flat DenseVector overloads of meta matrices take range lengths/offsets and size guards in pod (scalar) perspective "
            "(native extents are wrong for every sub-matrix with block size > 1)", 20)
    ck.rule("E5.alias-safe", "r may alias y (apply*(r,x,r,alpha) is permitted by the API and used internally by SaddlePoint/Tuple/Power matrices): in every Arch::Apply "
            "kernel/wrapper every read of y precedes every write to r that can hit it, or is the element-wise pairing r[i] <- y[i] on the loop's induction variable, or lies "
            "on a path where r != y was tested true (copy idiom), or is a value only multiplied by b on a |b| < eps path; a fill/copy of all of r (or a full-range loop writing r) "
            "followed by a read of y is a violation (input class: 4-operand forms with r aliasing y)", 17)
    ck.rule("E2.banded-interval", "the band helpers Intern::ApplyBanded::start_offset/end_offset and ALL their consumers — the generic kernel and the template-unrolled "
            "Iteration_Left kernels of the documented build option FEAT_UNROLL_BANDED (3/5/9/25 offsets) — agree on one half-open row-interval convention: every bound term "
            "H(band)+c of a row loop [max(..), min(..)) evaluates to 0 for the sentinel band noo and to rows for the sentinel band Index(-1), the upper bound uses the preceding "
            "band, and all consumers have the same normal form (admissible input: any banded matrix in a build with FEAT_UNROLL_BANDED resp. without; a drifted helper contract "
            "shifts every row range by one)", 5)
    ck.rule("E2.kernel-returns", "every *_generic kernel has a normal exit (an operation the container offers must not abort unconditionally)", 9)
    ck.rule("E2.kernel-kinds", "in the CSR/CSCR/BCSR/CSRSB/dense generic kernels r is subscripted by Row-kind and x by Col-kind indices (swapped when transposing), "
            "val/col_ind by the row_ptr segment of a Row index (breaks for rectangular shapes, empty rows)", 7)
    ck.rule("E2.kernel-init", "every generic kernel initialises r before accumulating into it: for |b| < eps (the 2-operand forms pass b = 0 and y = r, so the old content of r must "
            "not enter the result) r is zero-filled on every path, for b != 0 and r != y the summand y is copied into r, each over exactly the extent of r: rows (columns when "
            "transposed) times the block size of r.  Decided on path conditions of the kernel with its helpers inlined; MemoryPool::set_memory/copy, std::fill/fill_n/copy/copy_n and "
            "the hand loops r[i] = 0 / r[i] = y[i] are the same initialisation (admissible input: r holding NaN/inf before a 2-operand call; r != y in a 4-operand call)", 8)

    drvdir = os.path.join(featlib.VERIF, "tu") + "/c01_"
    extra = ("-DC01_THOROUGH",) if tier == "thorough" else ()
    files = featlib.repo_path(LAFEM) + "|" + drvdir
    # every function defined below kernel/lafem that the driver instantiates (helpers extracted from the anchored functions
    # carry arbitrary names)
    facts = featlib.extract(DRIVER, files=files, extra=extra)
    ck.tu(facts)
    pfacts = featlib.extract(DRIVER, files=featlib.repo_path(LAFEM), names=r"::apply(_transposed)?$", patterns=True, cfg=False, extra=extra)
    ck.tu(pfacts)
    bydecl = {f.d.get("decl"): f for f in facts.functions if f.tk != "pattern"}
    agg = Agg(ck)
    _inline_cache.clear()
    inlined_helpers = set()

    failed = rule_e0(ck, agg, facts, pfacts, bydecl, drvdir)

    members = [f for f in facts.functions if f.name in ("apply", "apply_transposed") and f.tk != "pattern"
               and f.file.startswith(featlib.repo_path(LAFEM)) and tmpl(f.cls) in SCALAR + META]
    if len(members) < 200:
        ck.incomplete("E0.instantiable", "only %d instantiated apply* members of the anchored containers in the facts" % len(members))
    nsc = nmeta = 0
    for f in members:
        if f.d.get("decl") in failed:
            ck.note("%s (%s): body does not instantiate (E0); other rules skipped for it" % (fkey(f), f.loc))
            continue
        fi = FnInfo(f)
        fi.bydecl = bydecl
        meta = tmpl(f.cls) in META
        if arity(f) not in (2, 4) or fi.pkind[0] not in ("DV", "DVB", "VL", "VR", "MV") or (arity(f) == 4 and fi.pkind[3] != "a"):
            ck.incomplete("E1.role", "%s at %s: unexpected signature (%s)" % (f.full, f.loc, ",".join(fi.pkind)))
            continue
        if meta:
            # helpers of the class called on *this with arguments (view factories, shared guard blocks) are inlined; block calls
            # first().apply(..) are calls on other objects and stay
            fm = inline_member(f, bydecl)
            if fm.inlined:
                fmi = FnInfo(fm)
                fmi.bydecl = bydecl
                inlined_helpers |= {c_.d.get("decl") for c_, _ in fm.inlined}
            else:
                fm, fmi = f, fi
            pg = rule_e1_guards(ck, agg, fm, fmi, meta)
            rule_c6(ck, agg, fm, fmi, meta)
            nmeta += 1
            if any(True for _ in arch_calls(fm)):
                ck.incomplete("E4.matvec", "%s: meta container calls an Arch kernel directly" % fkey(f))
            rule_e4(ck, agg, fm, fmi, pg, bydecl)
        else:
            nsc += 1
            # helpers of the class (shared implementation of twins, extracted early-out, predicate helpers) are inlined
            fx = inline_member(f, bydecl)
            if fx.inlined:
                fxi = FnInfo(fx)
                fxi.bydecl = bydecl
                inlined_helpers |= {c_.d.get("decl") for c_, _ in fx.inlined}
            else:
                fx, fxi = f, fi
            rule_e1_guards(ck, agg, fx, fxi, meta)
            rule_c6(ck, agg, fx, fxi, meta)
            if not any(True for _ in arch_calls(fx)):
                ck.incomplete("E1.role", "%s at %s: no Arch::Apply call found in a scalar container apply*" % (fkey(f), f.loc))
            rule_e1_roles(ck, agg, fx, fxi)
            rule_e7(ck, agg, fx, fxi, bydecl)
    # Arch::Apply calls outside apply*/wrappers would escape the role table
    for f in facts.functions:
        if f.tk == "pattern" or f in members or f.cls == "FEAT::LAFEM::Arch::Apply" or f.file.startswith(drvdir) or f.d.get("decl") in inlined_helpers:
            continue
        if any(True for _ in arch_calls(f)):
            ck.incomplete("E1.role", "Arch::Apply kernel called from %s (%s), which is not an apply* member of an anchored container" % (f.full, f.loc))
    rule_e1_dispatch(ck, agg, facts, bydecl)
    rule_c6_kernels(ck, agg, facts, bydecl)
    alias_viol = rule_alias(ck, agg, facts, bydecl)
    rule_e2(ck, agg, facts, alias_viol, bydecl)
    rule_banded(ck, agg, tier)
    agg.flush()

    ck.assume("template arguments analysed: double/Index (quick) plus float, unsigned int and further block shapes (thorough); BCSR blocks 2x3, 3x3, 2x2, 2x1, 1x2; "
              "meta containers over CSR and over the Stokes layout BCSR<2,2>/<2,1>/<1,2>")
    ck.assume("only the generic back end is built (no MKL/CUDA): their kernels are outside the analysed program")
    ck.assume("Container accessors (val, col_ind, row_ptr, rows, ...) return what their name says (accessor contract table, DESIGN A.2)")
    ck.note("%d scalar-container and %d meta-container apply* instantiations analysed" % (nsc, nmeta))
    expl = ("Static rules over the clang-resolved program of tu/c01_apply.cpp, which takes the address of every apply/apply_transposed overload of CSR, BCSR, CSCR, banded, "
            "dense, BWrappedCSR, SaddlePoint, Tuple* and Power* matrices. Decided: (1) every declared overload is curated and type-checks (E0); (2) argument-role agreement at all "
            "Arch::Apply call sites, in the dispatch wrappers and in the dimension guards (E1); (3) every exit defines r, early-outs have the form of their arity under a "
            "zero-product condition, alpha=0 never reaches a kernel dividing by alpha (E7); (6) inputs are const everywhere incl. range views (C6); (7) block structure, "
            "method parity, defining/accumulating forms and range-view extents of all meta matrices (E4); (4, partly) index kinds and initialisation extents of the CSR-family and "
            "dense generic kernels (E2). Not decided: numerical equality with the dense product / rounding bound, sign and constant-factor errors inside a kernel that keep index "
            "kinds, the remaining offset arithmetic of the banded kernel (the row-interval convention of its helpers and both consumer paths is decided by E2.banded-interval), MKL/CUDA back ends, r==x aliasing (guarded by XASSERT at run time); r==y aliasing is decided for the kernels/wrappers (E5.alias-safe), element-write/read overlaps the rule cannot order are reported as analysis-incomplete.")
    return ck.finish(expl)
