"""C16 — assembled matrices/vectors equal their integrals on every assembly route (structural clauses).

Engines: E11 (lib/symex.py, exact polynomial normal forms of the operator `eval` bodies), E1/E7 via abstract
single-iteration execution of the cell loops (lib/symex.AbsSymEx: the normal form of ONE accumulation step
`loc(i,j) = prev + eval(phi_j, psi_i) * jac_det * weight(k)` with the resolved roles of every operand),
E2-light on the scatter/gather helpers (same technique: row from the row mapping, column search inside
[row_ptr[row], row_ptr[row+1])), E1 on the Graph constructor calls of the symbolic assembler.
No FEAT3 code is executed.
"""
import itertools
import re
from fractions import Fraction

import featlib
from featlib import Check, rel, walk
import symex
from symex import SymEx, AbsSymEx, Poly, Loc, NotClosedForm, leaf_name, loc_name, strip_targs
import norm_c16 as norm

F = featlib.repo_path
FILES = "|".join([F("kernel/assembly/"), F("kernel/eval_tags.hpp"), F("kernel/util/tiny_algebra.hpp"),
                  F("kernel/lafem/sparse_matrix_csr.hpp"), F("kernel/lafem/sparse_matrix_bcsr.hpp"),
                  F("kernel/lafem/dense_vector.hpp"), F("kernel/lafem/dense_vector_blocked.hpp"), "/verif/tu/c16_"])
OPS_FILE = "kernel/assembly/common_operators.hpp"

# ---- component orders of the stress / strain-rate operators (transcribed from the comments in the eval bodies) ----
ORDER = {
    (2, 4): [(0, 0), (0, 1), (1, 0), (1, 1)],                        # "(sigma_11, sigma_12, sigma_21, sigma_22)"
    (2, 3): [(0, 0), (1, 1), (0, 1)],                                # "[ sigma_1 sigma_3 ] / [ sigma_3 sigma_2 ]"
    (3, 9): [(0, 0), (0, 1), (0, 2), (1, 0), (1, 1), (1, 2), (2, 0), (2, 1), (2, 2)],
    (3, 6): [(0, 0), (1, 1), (2, 2), (0, 1), (1, 2), (0, 2)],        # "[ sigma_1 sigma_4 sigma_6 ] / [ sigma_4 sigma_2 sigma_5 ] / [ sigma_6 sigma_5 sigma_3 ]"
}


def PHI(field, *idx):
    return Poly.sym(leaf_name("P0", field, *idx))


def PSI(field, *idx):
    return Poly.sym(leaf_name("P1", field, *idx))


def dotgrad(dim, f="grad"):
    r = Poly.const(0)
    for i in range(dim):
        r = r + PHI(f, i) * PSI(f, i)
    return r


def diag(dim, v):
    return {(i, j): (v if i == j else Poly.const(0)) for i in range(dim) for j in range(dim)}


def exp_stress_div(dim, nsc):
    order = ORDER[(dim, nsc)]
    comp = {}
    for k, (i, j) in enumerate(order):
        comp[(i, j)] = k
        comp.setdefault((j, i), k)
    out = {(r, k): Poly.const(0) for r in range(dim) for k in range(nsc)}
    for r in range(dim):
        for j in range(dim):
            out[(r, comp[(r, j)])] = out[(r, comp[(r, j)])] + PSI("value") * PHI("grad", j)
    return out


def exp_strain_rate(dim, nsc):
    order = ORDER[(dim, nsc)]
    out = {}
    for k, (i, j) in enumerate(order):
        for c in range(dim):
            v = Poly.const(0)
            if i == c:
                v = v + PHI("grad", j)
            if j == c:
                v = v + PHI("grad", i)
            out[(k, c)] = v * PSI("value") / 2
    return out


# documented integrand table: operator -> (anchor text in the class documentation / body comments, expected normal form,
#   parameters to enumerate, symmetric?, annihilates constants?)   phi = trial (P0), psi = test (P1) as fixed by
#   BilinearOperator::Evaluator::eval(phi, psi) (kernel/assembly/bilinear_operator.hpp)
def operator_table():
    T = {}
    T["LaplaceOperator"] = dict(anchor=[r"\f[ \nabla \varphi \cdot \nabla\psi \f]"], doc="grad(phi).grad(psi)",
                                expect=lambda dim, pr: dotgrad(dim), sym=True, kernel_const=True)
    T["LaplaceOperatorBlocked"] = dict(anchor=[r"\f[ \nabla \varphi \cdot \nabla\psi \f]", "blocked Laplace operator"], doc="grad(phi).grad(psi) on the block diagonal",
                                       expect=lambda dim, pr: diag(dim, dotgrad(dim)), sym=True, kernel_const=True)
    def beltrami(dim, pr):
        r = Poly.const(0)
        for i in range(dim):
            for j in range(dim):
                r = r + Poly.sym(leaf_name("this", "gram_inv", i, j)) * PHI("ref_grad", i) * PSI("ref_grad", j)
        return r
    T["LaplaceBeltramiOperator"] = dict(anchor=[r"\cdot\big(\widehat{\nabla}\widehat{\varphi}\big)^\top\cdot", r"\mathcal{G}_T^{-1}", r"\cdot\widehat{\nabla}\widehat{\psi},\f]"],
                                        doc="ref_grad(phi)^T G^-1 ref_grad(psi)", expect=beltrami, sym=False, kernel_const=True, phi_fields0=("ref_grad",))
    T["IdentityOperator"] = dict(anchor=[r"\f[ \varphi \cdot \psi \f]"], doc="phi*psi", expect=lambda dim, pr: PHI("value") * PSI("value"), sym=True, kernel_const=False)
    T["IdentityOperatorBlocked"] = dict(anchor=["Vector-valued identity operator implementation"], doc="phi*psi on the block diagonal",
                                        expect=lambda dim, pr: diag(dim, PHI("value") * PSI("value")), sym=True, kernel_const=False)
    T["TrialDerivativeOperator"] = dict(anchor=[r"\f[ \partial_i \varphi \cdot \psi \f]"], doc="d_i(phi)*psi", params={"deriv": "dim"},
                                        expect=lambda dim, pr: PHI("grad", pr["deriv"]) * PSI("value"), sym=False, kernel_const=True)
    T["TestDerivativeOperator"] = dict(anchor=[r"\f[ \varphi \cdot \partial_i \psi \f]"], doc="phi*d_i(psi)", params={"deriv": "dim"},
                                       expect=lambda dim, pr: PHI("value") * PSI("grad", pr["deriv"]), sym=False, kernel_const=False)
    T["DivDivOperator"] = dict(anchor=["div(phi) * div(psi) operator implementation", "Row index", "Column index"], doc="block (ir,ic) of div(u)*div(v), u = phi e_ic (trial/column), v = psi e_ir (test/row): d_ic(phi)*d_ir(psi)",
                               params={"ir": "dim", "ic": "dim"}, expect=lambda dim, pr: PHI("grad", pr["ic"]) * PSI("grad", pr["ir"]), sym="transpose-params", kernel_const=True)
    def dudv(dim, pr):
        return (dotgrad(dim) if pr["ir"] == pr["ic"] else Poly.const(0)) + PHI("grad", pr["ir"]) * PSI("grad", pr["ic"])
    T["DuDvOperator"] = dict(anchor=[r"\nabla \varphi : \nabla \psi + \nabla \varphi : \left( \nabla \psi \right)^T", r"so the \f$ (k,l) \f$-block consists of entries corresponding to \f$ \partial_k \varphi \partial_l \psi \f$"],
                             doc="block (k,l) of grad(u):grad(v) + grad(u):grad(v)^T = delta_kl grad(phi).grad(psi) + d_k(phi) d_l(psi)", params={"ir": "dim", "ic": "dim"},
                             expect=dudv, sym="transpose-params", kernel_const=True)
    def dudvb(dim, pr):
        return {(k, l): ((dotgrad(dim) if k == l else Poly.const(0)) + PHI("grad", k) * PSI("grad", l)) for k in range(dim) for l in range(dim)}
    T["DuDvOperatorBlocked"] = dict(anchor=[r"\nabla \varphi : \nabla \psi + \nabla \varphi : \left( \nabla \psi \right)^T", r"so the \f$ (k,l) \f$-block consists of entries corresponding to \f$ \partial_k \varphi \partial_l \psi \f$"],
                                    doc="blocks (k,l) = delta_kl grad(phi).grad(psi) + d_k(phi) d_l(psi)", expect=dudvb, sym="transpose", kernel_const=True)
    T["GradientTrialOperatorBlocked"] = dict(anchor=[r"\f$ a(\phi, \psi)_m = \int_\Omega(\nabla \phi, \psi e_m) dx, m=1,\dots,d \f$"], doc="(grad(phi), psi e_m)",
                                             expect=lambda dim, pr: {(m, 0): PHI("grad", m) * PSI("value") for m in range(dim)}, sym=False, kernel_const=True)
    T["GradientTestOperatorBlocked"] = dict(anchor=[r"\f$ a(\phi, \psi)_m = \int_\Omega(\phi e_m, \nabla \psi) dx, m=1,\dots,d \f$"], doc="(phi e_m, grad(psi))",
                                            expect=lambda dim, pr: {(m, 0): PHI("value") * PSI("grad", m) for m in range(dim)}, sym=False, kernel_const=False)
    T["StressDivergenceOperator"] = dict(anchor=[r"stress-divergence operator \f$\nabla\cdot\sigma\f$", "(sigma_11, sigma_12, sigma_21, sigma_22)", "(sigma_11, sigma_22, sigma_12)",
                                                 "dx sigma_4 + dy sigma_5 + dz sigma_6", "[ sigma_4 sigma_2 sigma_5 ]"],
                                         doc="(div sigma)_r tested with psi e_r: R(r,[rj]) = psi * d_j(phi), component order from the body comments", tparams=True,
                                         expect=lambda dim, pr: exp_stress_div(dim, pr["nsc"]), sym=False, kernel_const=True)
    T["StrainRateTensorOperator"] = dict(anchor=["sigma_2 [12] = 1/2 * (dy u_1 + dx u_2)", "sigma_7 [31] = 1/2 * (dx u_3 + dz u_1)", "sigma_6 [13] = 1/2 * (dz u_1 + dx u_3)", "[ sigma_4 sigma_2 sigma_5 ]"],
                                         doc="K([ij],c) = psi * 1/2 (delta_ic d_j(phi) + delta_jc d_i(phi)), component order from the body comments", tparams=True,
                                         expect=lambda dim, pr: exp_strain_rate(dim, pr["nsc"]), sym=False, kernel_const=True)
    return T


def class_text(src, name):
    """source text of `class name` (documentation comment before it + body up to the closing comment)"""
    m = re.search(r"\n\s*(?:template<[^>]*>\s*\n\s*)?class %s\b[^;]*?\n" % re.escape(name), src)
    if not m:
        return None
    start = src.rfind("/**", 0, m.start())
    end = src.find("}; // class %s" % name, m.end())
    if end < 0:
        end = src.find("}; // class", m.end())
    return src[start:end if end > 0 else len(src)]


def norm_ws(s):
    s = re.sub(r"\n\s*\*\s?", " ", s)
    s = re.sub(r"\n\s*//+\s?", " ", s)
    return re.sub(r"\s+", " ", s)


def tag_values(facts, enum):
    out = {}
    for f in facts.functions:
        if f.name != "inst_tags":
            continue
        for n in f.nodes():
            if n.get("k") == "Ref" and (n.get("qn") or "").startswith("FEAT::%s::" % enum) and "v" in n:
                out[n["qn"].rsplit("::", 1)[-1]] = int(n["v"])
    return out


def config_values(fn):
    """c_test / c_trial / c_trafo locals of a driver inst_operator/inst_functional instantiation"""
    out = {}
    for n in fn.nodes():
        if n.get("k") == "Var" and n.get("n", "").startswith("c_") and n.get("init") is not None:
            for x in walk(n["init"]):
                if x.get("k") == "Ref" and "v" in x:
                    out[n["n"][2:]] = (int(x["v"]), x.get("qn", ""))
    return out


def fields_read(fn, facts, param_index, sx_lookup):
    """names of the members read from parameter #param_index of fn (followed into callees by argument position)"""
    out = set()
    seen = set()

    def visit(f, d):
        if (f.full, d) in seen:
            return
        seen.add((f.full, d))
        # the parameter and every local bound to / copied from it (named references, `const auto& p = phi;`)
        ds = {d}
        grew = True
        while grew:
            grew = False
            for n in f.nodes():
                if n.get("k") == "Var" and n.get("init") is not None and n.get("d") not in ds:
                    i0 = norm.strip(n["init"])
                    while i0 is not None and ((i0.get("k") in ("Construct", "TempObj") and len(i0.get("a") or []) == 1) or (i0.get("k") == "Un" and i0.get("op") == "&")):
                        i0 = norm.strip(i0["a"][0] if i0.get("k") != "Un" else i0.get("e"))
                    if i0 is not None and i0.get("k") == "Ref" and i0.get("d") in ds:
                        ds.add(n["d"])
                        grew = True
        for n in f.nodes():
            if n.get("k") == "Member" and (norm.strip(n.get("b")) or {}).get("k") == "Ref" and norm.strip(n["b"]).get("d") in ds:
                out.add(n["n"])
            if featlib.is_call(n):
                for pos, a in enumerate(n.get("a", [])):
                    a = norm.strip(a) or {}
                    if a.get("k") == "Ref" and a.get("d") in ds:
                        t = sx_lookup(n, f)
                        if t is not None:
                            off = 1 if (n["k"] == "OpCall" and len(t.params) == len(n.get("a", [])) - 1) else 0
                            if 0 <= pos - off < len(t.params):
                                visit(t, t.params[pos - off]["d"])
    if param_index < len(fn.params):
        visit(fn, fn.params[param_index]["d"])
    return out


def as_matrix(sx, r):
    """returned value of eval -> scalar Poly or {(i,j): Poly}"""
    if isinstance(r, Loc):
        ents = dict(sx.sub_entries(r))
        if () in ents and len(ents) == 1:
            return ents[()]
        if ents and all(len(p) == 2 and all(isinstance(e, int) for e in p) for p in ents):
            return ents
        if not ents:
            return sx.read(r)
        raise NotClosedForm("value returned by eval has entries %s" % sorted(ents)[:4])
    return r


def run(tier):
    ck = Check("C16", tier)
    ck.rule("E11.operator-integrand", "the normal form of Operator::Evaluator::eval(phi=trial, psi=test) equals the integrand stated in the operator's documentation (every block entry, every admissible value of the runtime parameters deriv / ir / ic); a wrong operand or index assembles a different bilinear form on every mesh", 51)
    ck.rule("E11.operator-value-complete", "a matrix-valued eval assigns every entry of its BlockHeight x BlockWidth value exactly on the block extent; an unassigned entry is an uninitialised number added into the matrix for every pair of basis functions", 17)
    ck.rule("E1.operator-config", "trial_config / test_config / trafo_config request every datum that eval reads from phi / psi (and set_point from tau): a datum read without its tag is uninitialised (NaN-initialised) evaluation data, a datum read from the wrong side is the trial/test mix-up", 81)
    ck.rule("E11.operator-symmetry", "operators of symmetric forms: eval(phi,psi) = eval(psi,phi) (blocked: transposed block; per-block operators: with (ir,ic) swapped), so that the assembled matrix is symmetric for test = trial space", 12)
    ck.rule("E11.operator-kernel", "operators whose form annihilates constants (all derivatives of the trial function) vanish identically when the trial function data is that of a constant (grad = ref_grad = hess = 0), i.e. they do not depend on phi.value", 45)
    ck.rule("E11.functional-integrand", "linear functionals of common_functionals.hpp: the normal form of Evaluator::set_point(tau) followed by eval(psi) equals the integrand stated in the class documentation for the scalar AND the vector-valued (blocked) instantiation: ForceFunctional f(x) psi, LaplaceFunctional -Laplace(f)(x) psi, component-wise for vector fields with the Hessian layout hess[component][d1][d2] of Analytic::EvalTraits (component index first, derivative indices after); every component of a vector value is assigned exactly on its extent. A swapped index role integrates -grad(div f) instead of -Laplace(f) for every field with mixed dependencies", 8)
    ck.rule("E1.functional-config", "test_config / trafo_config of a linear functional request every datum eval reads from psi and set_point reads from tau", 16)
    ck.rule("E1.job-config-roles", "domain-assembler jobs of basic_assembly_jobs.hpp: the configuration constants a job forwards to its task base (the trafo / test / trial [single-space: merged space] template arguments of BasicMatrixAssemblyTaskCRTP1/2, BasicVectorAssemblyTaskCRTP, read off the RESOLVED instantiation) request, role by role, every datum the operator's / functional's configuration of the SAME role names: task test config >= Op::test_config, trial >= Op::trial_config, space >= test | trial, trafo >= Op::trafo_config; instantiated with operators whose test and trial configurations differ (TrialDerivativeOperator, TestDerivativeOperator), so that crossed roles are visible: the base task evaluates only what the forwarded tag names, eval() then reads never-computed data", 22)
    ck.rule("E1.accumulate-roles", "every assembly route accumulates eval(trial basis j, test basis i) (functionals: eval(test basis i)) into local entry (i,j) resp. (i): the phi argument is the data filled by the trial-space evaluator indexed by the column loop variable, psi the test-space data indexed by the row loop variable, the loops run to the respective evaluator's get_num_local_dofs(); swapped roles transpose every non-symmetric operator and break rectangular test/trial pairs", 13)
    ck.rule("E7.weight-once", "one accumulation step is exactly prev + eval * jac_det * cubature_weight(k) [* coefficient(j) for the matrix-free apply routes]: jac_det of the trafo data computed at cubature point k, the weight of the same point k of the same rule, each factor exactly once on every path into the accumulation", 13)
    ck.rule("E1.scatter-roles", "the local matrix/vector that was accumulated is scattered with (row mapping = test dof mapping, column mapping = trial dof mapping) prepared for the same cell; apply routes gather the coefficients with the trial mapping and scatter with the test mapping", 13)
    ck.rule("E2.scatter-gather", "ScatterAxpy/GatherAxpy of SparseMatrixCSR/BCSR: the row comes from the row mapping's get_index(i), the column table is filled from col_idx over exactly [row_ptr[row], row_ptr[row+1]) of that row, the entry addressed is col_ptr[col_map.get_index(j)] and receives alpha * loc(i,j) (gather: loc(i,j) += alpha * data[...]); vectors: index from the mapping's get_index(i)", 7)
    ck.rule("E1.symbolic-graph", "SymbolicAssembler::assemble_graph_*: the pattern is the composition transpose(test dof graph) o (trial dof graph) (extended variants: with the facet/node adjacency in between), both rendered from the respective spaces, so that every (test dof, trial dof) pair sharing a cell receives an entry", 7)

    ck.rule("E7.permutation-applied", "SymbolicAssembler functions that fetch a mesh permutation of one of their spaces (get_perm() / get_inv_perm() of the space's mesh): decision table over the emptiness tests of these permutations - for every combination (empty / not empty) every path to a return yields a graph that depends on every fetched permutation that is not empty in that combination (dependence over-approximated through calls, so only the ABSENCE is a verdict), and no permutation that is empty in that combination is handed to a call as an operand (an empty Permutation has no position array); otherwise, for exactly that combination of permuted / unpermuted meshes, the sparsity pattern is composed in the wrong cell numbering and misses couplings that the numeric assembly fills", 4)
    ck.rule("E7.setter-history-free", "parameter setters (set_*) of the three Burgers assembly routes (classic BurgersAssembler, BurgersAssemblyJobBase, VoxelBurgersAssembler incl. its generic back-end): the value stored into a member depends only on the arguments of THIS call, i.e. every read of a member the setter stores into is preceded, on every path through the call, by an assignment to that member in the same call (directly or through a sibling setter that assigns it on all its paths); a compound assignment or `m = max(m, new)` makes the state depend on the call history, so that the routes - which are documented to produce the same result for the same input - disagree from the second call on (the classic assembler overwrites)", 8)
    ck.rule("E7.term-gating-agreement", "Burgers routes (classic assemble_matrix / assemble_scalar_matrix / assemble_vector, the job task base, the voxel host loops): a bool flag that gates a term is a predicate of the operator's coefficients (nu, beta, frechet_beta, theta, sd_delta, sd_v_norm); flags over the SAME set of coefficients are the same predicate in every route (normal form: const locals / constructor-initialised members resolved, casts and `this->` / parameter-struct prefixes dropped) - the routes are documented to produce the same result for the same input, so a route whose predicate differs (`theta > 0` instead of `abs(theta) > 0`) drops or adds the term for exactly the coefficients on which the predicates differ (a negative reaction coefficient)", 21)
    ck.rule("E1.wrapper-forwards", "convenience wrappers of kernel/assembly/domain_assembler_helpers.hpp (assemble_* / integrate_*): every named parameter of the wrapper reaches the job it constructs or a call on the job / the domain assembler (through const locals; uses inside assertions do not count), and a parameter handed on as a plain argument is not received by a constructor parameter that carries the name of ANOTHER wrapper parameter; a parameter that is not forwarded is silently replaced by the job constructor's default (alpha = 1)", 37)
    ck.rule("E7.voxel-point-dependence", "voxel assembly kernels (poisson / defo / burgers matrix and defect, host-generic path): in one step of the cubature loop every datum entering the accumulation is computed at the CURRENT cubature point: the determinant factor is det of the Jacobian from calc_jac_mat(cub_pt[k]), the transformed gradients come from eval_ref_gradients(cub_pt[k]) and trans_gradients with the inverse of that same Jacobian, values from eval_ref_values(cub_pt[k]); a Jacobian evaluated outside the loop (e.g. at the cell centre) is exact on parallelogram cells only, the Standard trafo is multilinear", 6)
    ck.rule("E7.voxel-weight-once", "voxel assembly kernels: every term accumulated into the local matrix/vector in the cubature loop carries exactly one factor det(J(cub_pt[k])) and exactly one factor cub_wg[k] of the same loop index k", 6)

    ck.rule("E7.guarded-def-use", "Burgers assemblers / jobs / voxel kernels: a local (or task member) that is recomputed per cubature point / per cell under a guard G_w (format()/assignment inside the point loop resp. in the task's prepare(cell) / prepare_point()) is read afterwards (for task members: in any other method of the task, e.g. assemble_burgers_point / assemble_streamline_diffusion) only under guards G_r with G_r => OR of the G_w (propositional over the switch flags and comparison atoms, const bool locals resolved through their initialisers); otherwise, for a parameter set / cell with G_r and no G_w, the term is assembled from the value left by the previous point or the previous CELL (per-cell state that is only conditionally recomputed has to be reset on the remaining paths)", 27)
    ck.rule("E7.output-cleared", "assemblers that scatter into caller matrices: an output that the function clears with format() at all is cleared on EVERY path from entry to the scatter loop, all outputs of one function are treated alike, and functions documented to assemble (not add) clear their outputs; otherwise a re-assembly adds onto the old content", 11)

    ck.rule("E2.element-index-kind", "DomainAssembler: a function that reorders the element list (reads the old _element_indices and stores into it: _build_layers, _build_colors) stores only values taken from the old list (possibly through a copy / an in-place translated work array), never a position inside the list: positions equal mesh element numbers only when the assembler was compiled for all elements in mesh order, otherwise the wrong cells are assembled", 4)
    ck.rule("E7.caller-kernel-gating", "voxel host loops: a cell-local array that the host fills (gathers) only under a guard G_w and hands to the shared kernel is read by the kernel only under guards that imply G_w once the kernel's flag parameters are replaced by the call's arguments; otherwise, for a parameter set with the read guard true and G_w false, the kernel computes with the zero-initialised array", 4)

    ck.rule("E7.facet-slot-consistency", "TraceAssembler routes: the per-facet records (_facets, _cells, _cell_facet, _facet_ori are parallel arrays, one record per slot) are used slot-wise: whenever a cell trafo / space evaluator that was prepared from the record of slot s is evaluated, its input (the cubature point mapped through FaceRefTrafo(_cell_facet) and CongruencyTrafo(_facet_ori), resp. the trafo data) depends on the same slot s of every array on every path (?: conditions enumerated), and basis data of one side is indexed with local dof numbers of the same side (CommonDofMap followed field-wise); the point of every cell-trafo evaluation depends on all arrays its sibling routes use, and a decision on slot data that guards a modification of a field of the evaluation data (`if(cell_facet_ori < 0) tau.normal.negate()`: the orientation of the facet normal) is taken from all arrays from which the sibling routes take the same decision (local facet number AND orientation code of the slot). Dependence tags are over-approximated, a verdict is drawn only from the ABSENCE of the required slot; compile() / compile_all_facets() append to all these arrays together (one record per slot)", 108)
    ck.rule("E7.clear-resets-selection", "assembler classes with add_*() / compile() / clear() (TraceAssembler): every member through which a public mutator other than compile()/clear() records the selection (written by add_facet / add_mesh_part) and which compile() reads is reset by clear() (container cleared / assigned, or every element assigned in a loop over that container); a loop over a container that was emptied just before never executes. Otherwise clear() + add_*() + compile() assembles on the union of the old and the new selection, i.e. the integral over the wrong set of facets", 1)
    facts = featlib.extract("tu/c16_assembly.cpp", files=FILES)
    ck.tu(facts)
    for e in facts.errors_outside_repo():
        ck.incomplete("E11.operator-integrand", "driver tu/c16_assembly.cpp no longer matches the API: %s:%d %s" % (e["file"], e["line"], e["msg"]))
    for e in facts.errors_in_repo():
        ck.ob("E11.operator-integrand", "E0/%s/%s" % (rel(e["file"]), re.sub(r"\d+", "N", e["msg"])[:80]), False, "front-end error %s:%d %s" % (rel(e["file"]), e["line"], e["msg"]), e["file"], e["line"])

    check_operators(ck, facts, tier)
    check_functionals(ck, facts, tier)
    check_job_configs(ck, facts, tier)
    check_routes(ck, facts, tier)
    check_scatter(ck, facts, tier)
    check_symbolic(ck, facts, tier)
    check_permutation_applied(ck, facts, tier)
    check_voxel(ck, tier)
    facts_b = featlib.extract("tu/c16_burgers.cpp", files=BURGERS_FILES)
    ck.tu(facts_b)
    for e in facts_b.errors_outside_repo():
        ck.incomplete("E7.guarded-def-use", "driver tu/c16_burgers.cpp no longer matches the API: %s:%d %s" % (e["file"], e["line"], e["msg"]))
    for e in facts_b.errors_in_repo():
        ck.ob("E7.guarded-def-use", "E0/%s/%s" % (rel(e["file"]), re.sub(r"\d+", "N", e["msg"])[:80]), False, "front-end error %s:%d %s" % (rel(e["file"]), e["line"], e["msg"]), e["file"], e["line"])
    named = [("classic", facts_b, lambda f: "burgers_assembler.hpp" in f.file and f.name.startswith("assemble")),
             ("job", facts_b, lambda f: "burgers_assembly_job.hpp" in f.file and bool(f.cls) and f.body is not None and not f.d.get("inits") and symex.strip_targs(f.cls).rsplit("::", 1)[-1] != f.name)]
    try:
        facts_v = featlib.extract(F(VOXEL_TUS["burgers"]), files=VOXEL_FILES)
        named.append(("voxel", facts_v, lambda f: f.name.endswith("_assembly_kernel") and "Hypercube<2>" in f.full and ", double, " in f.full))
    except featlib.AnalysisBroken as e:
        ck.incomplete("E7.guarded-def-use", str(e))
    check_guarded_defuse(ck, named, tier)
    if len(named) == 3:
        check_caller_kernel_gating(ck, named[2][1], "voxel", tier)
    check_element_index_kind(ck, tier)
    check_setters(ck, tier)
    check_wrappers(ck, tier)
    if len(named) == 3:
        check_gating_agreement(ck, [facts_b, named[2][1]])
    else:
        check_gating_agreement(ck, [facts_b])
    check_outputs_cleared(ck, facts_b, tier)
    check_outputs_cleared(ck, facts, tier)
    try:
        facts_t = featlib.extract("tu/c16_trace.cpp", files=TRACE_FILES)
        ck.tu(facts_t)
        for e in facts_t.errors_outside_repo():
            ck.incomplete("E7.facet-slot-consistency", "driver tu/c16_trace.cpp no longer matches the API: %s:%d %s" % (e["file"], e["line"], e["msg"]))
        for e in facts_t.errors_in_repo():
            ck.ob("E7.facet-slot-consistency", "E0/%s/%s" % (rel(e["file"]), re.sub(r"\d+", "N", e["msg"])[:80]), False, "front-end error %s:%d %s" % (rel(e["file"]), e["line"], e["msg"]), e["file"], e["line"])
        check_trace_slots(ck, facts_t, tier)
        check_clear_resets(ck, facts_t, tier)
    except featlib.AnalysisBroken as e:
        ck.incomplete("E7.facet-slot-consistency", str(e))
    if tier == "thorough":
        # breadth: the same rules on the float instantiation of every template (same keys; the detail names the instantiation)
        facts_f = featlib.extract("tu/c16_assembly.cpp", files=FILES, extra=("-DC16_DT=float",))
        ck.tu(facts_f)
        for e in facts_f.errors_in_repo() + facts_f.errors_outside_repo():
            ck.ob("E11.operator-integrand", "E0/%s/%s" % (rel(e["file"]), re.sub(r"\d+", "N", e["msg"])[:80]), False, "[float] front-end error %s:%d %s" % (rel(e["file"]), e["line"], e["msg"]), e["file"], e["line"])
        pk = _Prefixed(ck, "[instantiated for float] ")
        check_operators(pk, facts_f, tier)
        check_functionals(pk, facts_f, tier)
        check_routes(pk, facts_f, tier)
        check_scatter(pk, facts_f, tier)

    ck.assume("phi = trial, psi = test in Evaluator::eval(phi, psi) (kernel/assembly/bilinear_operator.hpp); the driver instantiates every two-space route with test = Lagrange2, trial = Lagrange1 in the API's (test, trial) positions, roles are then read off the resolved evaluator / dof-mapping types")
    ck.assume("documented integrands are transcribed once (operator_table) with anchor texts from kernel/assembly/common_operators.hpp; a changed anchor is analysis-incomplete, not a verdict")
    ck.assume("Trafo::EvaluatorBase::ConfigTraits closure: jac_det / jac_inv / hess_inv imply jac_mat, hess_inv implies hess_ten and jac_inv, dom_point always; the assemblers add jac_det")
    ck.assume("TraceAssembler: a slot of the parallel arrays _facets, _cells, _cell_facet, _facet_ori is identified by the value of the facet-loop index relative to the start of the iteration; which VALUE compile() stores in which array is not decided")
    expl = ("Operators of common_operators.hpp: exact normal form of every eval body (engine E11) against the transcribed documented integrand, completeness of matrix values, "
            "config tags vs data read, symmetry, kernel of constants. Assembly routes (BilinearOperatorAssembler::assemble_matrix1/2, apply1/2, LinearFunctionalAssembler, the domain-assembler "
            "job tasks): normal form of one abstract accumulation step with resolved operand roles, weight/jac_det factors, scatter roles. CSR/BCSR scatter/gather index discipline; "
            "symbolic assembler graph composition. Voxel kernels (poisson, defo, burgers matrix/defect; burgers with need_streamline = false): point dependence of Jacobian/gradient data and det*weight factors of every accumulated term. TraceAssembler routes (all 8, quadrilateral / triangle / hexahedral instantiation): slot-wise use of the parallel per-facet arrays (cell, local facet, orientation code of BOTH sides of an inner facet) by dependence tags. NOT decided: numerical equality with exact integrals, the integrands of the classic Burgers/GPDV/trace assemblers, the streamline-diffusion branch and the OpenMP/CUDA wrappers of the voxel assemblers, agreement of routes as numbers, cubature degree sufficiency.")
    return ck.finish(expl)


class _Prefixed:
    def __init__(self, ck, prefix):
        self._ck, self._p = ck, prefix

    def ob(self, rule, key, ok, detail="", *a, **kw):
        return self._ck.ob(rule, key, ok, self._p + detail, *a, **kw)

    def incomplete(self, rule, what):
        return self._ck.incomplete(rule, self._p + what)

    def note(self, s):
        return self._ck.note(self._p + s)


# -------------------------------------------------------------------------------------------------
# operators
# -------------------------------------------------------------------------------------------------

def check_operators(ck, facts, tier):
    try:
        src = open(F(OPS_FILE)).read()
    except OSError as e:
        ck.incomplete("E11.operator-integrand", "cannot read %s: %s" % (OPS_FILE, e))
        return
    table = operator_table()
    stags = tag_values(facts, "SpaceTags")
    ttags = tag_values(facts, "TrafoTags")
    if len(stags) < 6 or len(ttags) < 7:
        ck.incomplete("E1.operator-config", "SpaceTags/TrafoTags enumerators not found in the driver facts (%s, %s)" % (sorted(stags), sorted(ttags)))
        return
    # configs per (operator class, dim) from the driver
    cfgs = {}
    for f in facts.functions:
        m = re.match(r"^inst_operator<FEAT::Assembly::Common::(\w+)(<[\d, ]+>)?, (\d)>$", f.full)
        if m:
            cfgs[(m.group(1), m.group(2) or "", int(m.group(3)))] = config_values(f)
    helper = SymEx([facts])
    done = set()
    anchors_ok = {}
    for name, row in table.items():
        txt = class_text(src, name)
        if txt is None:
            ck.incomplete("E11.operator-integrand", "class %s not found in %s" % (name, OPS_FILE))
            anchors_ok[name] = False
            continue
        nt = norm_ws(txt)
        missing = [a for a in row["anchor"] if norm_ws(a) not in nt]
        if missing:
            ck.incomplete("E11.operator-integrand", "%s: oracle anchor text changed (documentation no longer contains %r); re-transcribe the integrand table" % (name, missing[0]))
        anchors_ok[name] = not missing

    for f in sorted(facts.functions, key=lambda f: f.full):
        m = re.match(r"^FEAT::Assembly::Common::(\w+)(<[\d, ]+>)?::Evaluator<FEAT::Assembly::AsmTraits2<.*FEAT::Shape::Hypercube<(\d)>", f.cls)
        if not m or f.name != "eval" or f.tk == "pattern" or len(f.params) != 2:
            continue
        name, targs, dim = m.group(1), m.group(2) or "", int(m.group(3))
        if (name, targs, dim) in done:
            continue
        done.add((name, targs, dim))
        if name not in table:
            ck.note("operator %s%s has no row in the documented integrand table (not covered)" % (name, targs))
            continue
        if not anchors_ok.get(name):
            continue
        row = table[name]
        base_pr = {}
        if row.get("tparams"):
            tv = [int(x) for x in re.findall(r"\d+", targs)]
            if len(tv) != 2 or tv[0] != dim or (tv[0], tv[1]) not in ORDER:
                continue
            base_pr["nsc"] = tv[1]
        elif targs:
            tv = [int(x) for x in re.findall(r"\d+", targs)]
            if tv and tv[0] != dim:
                continue
        pnames = sorted((row.get("params") or {}))
        inst0 = "%s%s/dim%d" % (name, targs, dim)
        results = {}
        for combo in itertools.product(range(dim), repeat=len(pnames)):
            pr = dict(base_pr)
            pr.update(dict(zip(pnames, combo)))
            inst = inst0 + "".join("/%s=%d" % kv for kv in zip(pnames, combo))
            sx = SymEx([facts])
            for k, v in zip(pnames, combo):
                sx.store[("this", (k,))] = Poly.const(v)
            try:
                got = as_matrix(sx, sx.run(f))
            except NotClosedForm as e:
                ck.incomplete("E11.operator-integrand", "%s: eval is not a closed form: %s" % (inst, e))
                continue
            want = row["expect"](dim, pr)
            results[combo] = got
            if isinstance(want, dict) != isinstance(got, dict):
                ck.ob("E11.operator-integrand", inst, False, "eval returns a %s value, the documented integrand is a %s" % ("matrix" if isinstance(got, dict) else "scalar", "matrix" if isinstance(want, dict) else "scalar"), f.file, f.line)
                continue
            if isinstance(want, dict):
                keys_w, keys_g = set(want), set(got)
                miss = sorted(keys_w - keys_g)
                extra = sorted(keys_g - keys_w)
                ck.ob("E11.operator-value-complete", inst, not miss and not extra, ("entries never assigned: %s; " % miss if miss else "") + ("entries outside the block written: %s" % extra if extra else "") or "%d entries" % len(want), f.file, f.line)
                bad = [(k, got[k], want[k]) for k in sorted(keys_w & keys_g) if not (Poly.of(got[k]) - want[k]).is_zero()]
                ck.ob("E11.operator-integrand", inst, not bad, "; ".join("entry %s = %s, documented (%s): %s" % (k, g, row["doc"], w) for k, g, w in bad[:3]) if bad else "= %s" % row["doc"], f.file, f.line,
                      sample={"entries": len(want), "doc": row["doc"]})
            else:
                ok = (Poly.of(got) - want).is_zero()
                ck.ob("E11.operator-integrand", inst, ok, "eval = %s, documented (%s): %s" % (got, row["doc"], want) if not ok else "= %s = %s" % (row["doc"], want), f.file, f.line, sample={"normal_form": str(got)})
            # kernel of constants
            if row.get("kernel_const"):
                zero = {}
                vals = got.values() if isinstance(got, dict) else [got]
                bad = []
                for v in vals:
                    v = Poly.of(v)
                    for s in v.symbols():
                        if s.startswith("P0.grad") or s.startswith("P0.ref_grad") or s.startswith("P0.hess") or s.startswith("P0.ref_hess"):
                            zero[s] = 0
                for v in vals:
                    r = Poly.of(v).subs(zero)
                    if not r.is_zero():
                        bad.append(str(r))
                ck.ob("E11.operator-kernel", inst, not bad, "for a constant trial function (all derivatives 0) eval = %s" % bad[:2] if bad else "vanishes for constant trial functions", f.file, f.line)
        # symmetry
        if row.get("sym") and results:
            def swap(p):
                mp = {}
                for s in Poly.of(p).symbols():
                    if s.startswith("P0."):
                        mp[s] = Poly.sym("P1." + s[3:])
                    elif s.startswith("P1."):
                        mp[s] = Poly.sym("P0." + s[3:])
                return Poly.of(p).subs(mp)
            bad = []
            for combo, got in results.items():
                if row["sym"] is True:
                    if isinstance(got, dict):
                        bad += ["entry %s" % (k,) for k, v in got.items() if swap(v) != Poly.of(got.get(k))]
                    elif swap(got) != Poly.of(got):
                        bad.append("eval(psi,phi) = %s" % swap(got))
                elif row["sym"] == "transpose":
                    bad += ["entry %s" % (k,) for k, v in got.items() if swap(v) != Poly.of(got.get((k[1], k[0])))]
                elif row["sym"] == "transpose-params":
                    other = results.get(tuple(reversed(combo)))
                    if other is None or swap(got) != Poly.of(other):
                        bad.append("(ir,ic)=%s" % (combo,))
            ck.ob("E11.operator-symmetry", inst0, not bad, "not symmetric under phi <-> psi: %s" % bad[:3] if bad else "symmetric under phi <-> psi", f.file, f.line)
        # configs
        cfg = cfgs.get((name, targs, dim))
        if not cfg or not all(k in cfg for k in ("test", "trial", "trafo")):
            ck.incomplete("E1.operator-config", "%s: config constants not found in the driver facts" % inst0)
            continue
        rd_phi = fields_read(f, facts, 0, helper.lookup)
        rd_psi = fields_read(f, facts, 1, helper.lookup)
        sp = [g for g in facts.functions if g.cls == f.cls and g.name == "set_point"]
        rd_tau = fields_read(sp[0], facts, 0, helper.lookup) if sp else set()
        for side, rd, key in (("trial", rd_phi, "trial"), ("test", rd_psi, "test")):
            have = {k for k, v in stags.items() if v and cfg[key][0] & v}
            miss = sorted(x for x in rd if x in stags and x not in have)
            unk = sorted(x for x in rd if x not in stags)
            if unk:
                ck.incomplete("E1.operator-config", "%s: eval reads unknown basis data %s" % (inst0, unk))
            extra = sorted(have - rd)
            ck.ob("E1.operator-config", "%s/%s_config" % (inst0, side), not miss,
                  "eval reads %s.%s but %s_config = %s does not request it" % ("phi" if side == "trial" else "psi", miss, side, "|".join(sorted(have)) or "none") if miss else
                  "%s_config = %s, read: %s%s" % (side, "|".join(sorted(have)) or "none", sorted(rd), (" (requested but unused: %s)" % extra) if extra else ""), f.file, f.line)
        tc = cfg["trafo"][0] | ttags.get("jac_det", 0) | ttags.get("dom_point", 0)
        have = {k for k, v in ttags.items() if v and tc & v}
        if have & {"jac_det", "jac_inv", "hess_inv"}:
            have.add("jac_mat")
        if "hess_inv" in have:
            have |= {"hess_ten", "jac_inv"}
        miss = sorted(x for x in rd_tau if x in ttags and x not in have)
        ck.ob("E1.operator-config", "%s/trafo_config" % inst0, not miss, "set_point reads tau.%s which trafo_config (+jac_det, closure) = %s does not provide" % (miss, sorted(have)) if miss else "trafo data read: %s" % sorted(rd_tau), f.file, f.line)


# -------------------------------------------------------------------------------------------------
# linear functionals
# -------------------------------------------------------------------------------------------------

FUNCS_FILE = "kernel/assembly/common_functionals.hpp"
ANALYTIC_FILE = "kernel/analytic/function.hpp"


def functional_table():
    """functional -> anchors in the class documentation, documented integrand, expected normal form.
    F = function value (FVAL), H = function Hessian (FHESS) in the image point, psi = P0 (the test basis function).
    scalar f: F, H[a][b];  vector field: F[c], H[c][a][b]  (layout: anchors in kernel/analytic/function.hpp)"""
    def F(*i):
        return Poly.sym(leaf_name("FVAL", *i))

    def H(*i):
        return Poly.sym(leaf_name("FHESS", *i))
    psi = Poly.sym(leaf_name("P0", "value"))

    def force(dom, img):
        return F() * psi if img is None else {(c,): F(c) * psi for c in range(img)}

    def laplace(dom, img):
        if img is None:
            r = Poly.const(0)
            for a in range(dom):
                r = r - H(a, a)
            return r * psi
        out = {}
        for c in range(img):
            r = Poly.const(0)
            for a in range(dom):
                r = r - H(c, a, a)
            out[(c,)] = r * psi
        return out
    return {
        "ForceFunctional": dict(anchor=[r"\f[ \ell(\varphi) := \int_\Omega f\cdot\varphi \f]"], doc="f(x) * psi (component-wise for a vector field)", expect=force),
        "LaplaceFunctional": dict(anchor=[r"\f[ \ell(\varphi) := \int_\Omega -\Delta f\cdot\varphi \f]"], doc="-Laplace(f)(x) * psi = -sum_a d_a d_a f_c * psi, Hessian layout hess[c][a][b]", expect=laplace),
    }


def check_functionals(ck, facts, tier):
    try:
        src = open(F(FUNCS_FILE)).read()
        asrc = norm_ws(open(F(ANALYTIC_FILE)).read())
    except OSError as e:
        ck.incomplete("E11.functional-integrand", "cannot read %s: %s" % (FUNCS_FILE, e))
        return
    # the Hessian layout the expected forms are written in (component first, derivative indices after)
    for a in ("typedef Tiny::Tensor3<DataType_, image_dim_, domain_dim_, domain_dim_> HessianType;", "typedef Tiny::Matrix<DataType_, domain_dim_, domain_dim_> HessianType;"):
        if norm_ws(a) not in asrc:
            ck.incomplete("E11.functional-integrand", "oracle anchor changed: %s no longer declares %r (re-transcribe the Hessian layout)" % (ANALYTIC_FILE, a))
            return
    table = functional_table()
    stags = tag_values(facts, "SpaceTags")
    ttags = tag_values(facts, "TrafoTags")
    cfgs = {}
    for f in facts.functions:
        m = re.match(r"^inst_functional<(FEAT::Assembly::Common::\w+<.*>), (\d)>$", f.full)
        if m:
            cfgs[(m.group(1), int(m.group(2)))] = config_values(f)
    helper = SymEx([facts])
    anchors_ok = {}
    for name, row in table.items():
        txt = class_text(src, name)
        if txt is None:
            ck.incomplete("E11.functional-integrand", "class %s not found in %s" % (name, FUNCS_FILE))
            anchors_ok[name] = False
            continue
        missing = [a for a in row["anchor"] if norm_ws(a) not in norm_ws(txt)]
        if missing:
            ck.incomplete("E11.functional-integrand", "%s: oracle anchor text changed (documentation no longer contains %r); re-transcribe the integrand table" % (name, missing[0]))
        anchors_ok[name] = not missing
    classes = {}
    for f in facts.functions:
        m = re.match(r"^(FEAT::Assembly::Common::(\w+)<(.*)>)::Evaluator<FEAT::Assembly::AsmTraits1<.*FEAT::Shape::Hypercube<(\d)>", f.cls)
        if m and f.tk != "pattern" and f.name in ("eval", "set_point"):
            classes.setdefault(f.cls, {"name": m.group(2), "fun": m.group(3), "func_cls": m.group(1), "dim": int(m.group(4)), "m": {}})["m"].setdefault(f.name, f)
    done = set()
    for cls, info in sorted(classes.items()):
        name, dim = info["name"], info["dim"]
        fe, fs = info["m"].get("eval"), info["m"].get("set_point")
        if name not in table:
            ck.note("functional %s has no row in the documented integrand table (not covered)" % name)
            continue
        if not anchors_ok.get(name) or fe is None or fs is None or len(fe.params) != 1:
            if anchors_ok.get(name):
                ck.incomplete("E11.functional-integrand", "%s: eval(psi) / set_point(tau) not instantiated with the expected signature" % cls[:90])
            continue
        cfg = cfgs.get((info["func_cls"], dim))
        if not cfg or "comps" not in cfg:
            ck.incomplete("E11.functional-integrand", "%s: number of value components not found in the driver facts (inst_functional)" % cls[:90])
            continue
        img = cfg["comps"][0] if cfg["comps"][0] > 1 else None
        inst = "%s/%s/dim%d" % (name, "vector%d" % img if img else "scalar", dim)
        if inst in done:
            continue
        done.add(inst)

        def model(sx, n, callee, this_loc, args, fn):
            if this_loc is not None and loc_name(this_loc).endswith("_func_eval") or (this_loc is not None and "Analytic::" in callee):
                nm = callee.rsplit("::", 1)[-1]
                if nm in ("value", "gradient", "hessian") and len(args) == 1:
                    pts.append((nm, loc_name(args[0]) if isinstance(args[0], Loc) else str(args[0])))
                    return Loc({"value": "FVAL", "gradient": "FGRAD", "hessian": "FHESS"}[nm])
            return None
        pts = []
        sx = SymEx([facts], opaque=model)
        try:
            sx.run(fs, args=[Loc("tau")])
            r = sx.run(fe, args=[Loc("P0")])
            if isinstance(r, Loc):
                ents = dict(sx.sub_entries(r))
                if () in ents and len(ents) == 1:
                    got = ents[()]
                elif ents and all(len(p) == 1 and isinstance(p[0], int) for p in ents):
                    got = ents
                elif not ents:
                    got = sx.read(r)
                else:
                    raise NotClosedForm("value returned by eval has entries %s" % sorted(ents, key=str)[:4])
            else:
                got = r
        except NotClosedForm as e:
            ck.incomplete("E11.functional-integrand", "%s: set_point/eval is not a closed form: %s" % (inst, e))
            continue
        want = table[name]["expect"](dim, img)
        problems = []
        if isinstance(want, dict) != isinstance(got, dict):
            problems.append("eval returns a %s value, the functional of this function is %s-valued" % ("vector" if isinstance(got, dict) else "scalar", "vector" if isinstance(want, dict) else "scalar"))
        elif isinstance(want, dict):
            miss, extra = sorted(set(want) - set(got)), sorted(set(got) - set(want))
            if miss or extra:
                problems.append("components never assigned: %s, outside the extent: %s" % (miss, extra))
            for k in sorted(set(want) & set(got)):
                if not (Poly.of(got[k]) - want[k]).is_zero():
                    problems.append("component %d = %s, documented (%s): %s" % (k[0], got[k], table[name]["doc"], want[k]))
        elif not (Poly.of(got) - want).is_zero():
            problems.append("eval = %s, documented (%s): %s" % (got, table[name]["doc"], want))
        bad_pt = [p for nm, p in pts if p != "tau.img_point"]
        if bad_pt:
            problems.append("the function is evaluated at %s, not at the image point tau.img_point of the cubature point" % bad_pt[0])
        ck.ob("E11.functional-integrand", inst, not problems, "; ".join(problems[:3]) if problems else "= %s" % table[name]["doc"], fe.file, fe.line,
              sample={"normal_form": str(got if not isinstance(got, dict) else got.get((0,)))[:200]})
        # configs
        if "test" not in cfg or "trafo" not in cfg:
            ck.incomplete("E1.functional-config", "%s: config constants not found in the driver facts" % inst)
            continue
        rd_psi = fields_read(fe, facts, 0, helper.lookup)
        rd_tau = fields_read(fs, facts, 0, helper.lookup)
        have = {k for k, v in stags.items() if v and cfg["test"][0] & v}
        miss = sorted(x for x in rd_psi if x in stags and x not in have)
        ck.ob("E1.functional-config", inst + "/test_config", not miss, "eval reads psi.%s but test_config = %s does not request it" % (miss, "|".join(sorted(have)) or "none") if miss else "test_config = %s, read: %s" % ("|".join(sorted(have)) or "none", sorted(rd_psi)), fe.file, fe.line)
        tc = cfg["trafo"][0] | ttags.get("jac_det", 0) | ttags.get("dom_point", 0)
        have = {k for k, v in ttags.items() if v and tc & v}
        if have & {"jac_det", "jac_inv", "hess_inv"}:
            have.add("jac_mat")
        miss = sorted(x for x in rd_tau if x in ttags and x not in have)
        ck.ob("E1.functional-config", inst + "/trafo_config", not miss, "set_point reads tau.%s which trafo_config (+jac_det) = %s does not provide" % (miss, sorted(have)) if miss else "trafo data read: %s" % sorted(rd_tau), fs.file, fs.line)


# -------------------------------------------------------------------------------------------------
# configuration constants forwarded by the assembly jobs keep their role
# -------------------------------------------------------------------------------------------------

def check_job_configs(ck, facts, tier):
    rule = "E1.job-config-roles"
    stags = tag_values(facts, "SpaceTags")
    ttags = tag_values(facts, "TrafoTags")
    if len(stags) < 6 or len(ttags) < 7:
        ck.incomplete(rule, "SpaceTags/TrafoTags enumerators not found in the driver facts")
        return

    def decode(txt, table, enum):
        txt = txt.strip()
        m = re.match(r"^(?:\(FEAT::%s\))?(\d+)$" % enum, txt)
        if m:
            return int(m.group(1))
        nm = txt.rsplit("::", 1)[-1]
        if nm == "none":
            return 0
        return table.get(nm)
    # configurations of the operators / functionals as the driver sees them (inst_operator / inst_functional)
    cfgs = {}
    for f in facts.functions:
        m = re.match(r"^inst_(?:operator|functional)<(FEAT::Assembly::Common::.*), (\d)>$", f.full)
        if m:
            cfgs[m.group(1)] = config_values(f)
    seen = set()
    for f in sorted(facts.functions, key=lambda f: f.full):
        m = re.match(r"^FEAT::Assembly::(BasicMatrixAssemblyTaskCRTP1|BasicMatrixAssemblyTaskCRTP2|BasicVectorAssemblyTaskCRTP)<FEAT::Assembly::(\w+Job\d?)<", f.cls or "")
        if not m or f.tk == "pattern" or f.cls in seen:
            continue
        seen.add(f.cls)
        base, job = m.group(1), m.group(2)
        targs = split_targs(f.cls)
        jargs = split_targs(targs[0].rsplit("::Task", 1)[0]) if targs else []
        op = jargs[0] if jargs else None
        cfg = cfgs.get(op)
        if not cfg:
            continue      # a job with configuration literals of its own (ForceFunctionalAssemblyJob) / operator not in the driver table
        short = re.sub(r"FEAT::Assembly::Common::", "", op)
        short = re.sub(r"<FEAT::Analytic::.*>$", "", short)
        nroles = {"BasicMatrixAssemblyTaskCRTP2": 3, "BasicMatrixAssemblyTaskCRTP1": 2, "BasicVectorAssemblyTaskCRTP": 2}[base]
        got = targs[-nroles:]
        if len(got) != nroles:
            ck.incomplete(rule, "%s<%s>: template arguments of %s not recognised" % (job, short, base))
            continue
        names = {"BasicMatrixAssemblyTaskCRTP2": ["trafo", "test", "trial"], "BasicMatrixAssemblyTaskCRTP1": ["trafo", "space"], "BasicVectorAssemblyTaskCRTP": ["trafo", "test"]}[base]
        for role, txt in zip(names, got):
            table, enum = (ttags, "TrafoTags") if role == "trafo" else (stags, "SpaceTags")
            val = decode(txt, table, enum)
            key = "%s<%s>/%s_config" % (job, short, role)
            if val is None:
                ck.incomplete(rule, "%s: template argument %s not decoded" % (key, txt))
                continue
            if role == "space":
                want = cfg.get("test", (0,))[0] | cfg.get("trial", (0,))[0]
            else:
                if role not in cfg:
                    ck.incomplete(rule, "%s: the driver has no %s_config of %s" % (key, role, short))
                    continue
                want = cfg[role][0]
            show = lambda v: "|".join(k for k, b in sorted(table.items(), key=lambda kv: kv[1]) if b and v & b) or "none"
            ok = (want & ~val) == 0
            detail = "task base receives %s, %s::%s requests %s" % (show(val), short, "test_config|trial_config" if role == "space" else role + "_config", show(want))
            if not ok:
                crossed = [r2 for r2 in ("test", "trial") if r2 != role and r2 in cfg and cfg[r2][0] == val and role in ("test", "trial")]
                detail += ": %s is not evaluated for the %s function although eval() reads it%s" % (show(want & ~val), role, (" (the forwarded value is the operator's %s_config: roles crossed)" % crossed[0]) if crossed else "")
            ck.ob(rule, key, ok, detail, f.file, f.line)


# -------------------------------------------------------------------------------------------------
# assembly routes
# -------------------------------------------------------------------------------------------------

EVAL_RE = re.compile(r"::Evaluator<.*>::(eval|set_point|prepare|finish)$")


def route_filter(t, call):
    if "/kernel/util/tiny_algebra.hpp" in t.file:
        return True
    if "/kernel/assembly/" in t.file and not EVAL_RE.search(t.qn):
        return True
    return False


def space_role(s):
    """TEST / TRIAL by the driver's convention (test = Lagrange2, trial = Lagrange1)"""
    if "Space::Lagrange2::" in s and "Space::Lagrange1::" not in s:
        return "test"
    if "Space::Lagrange1::" in s and "Space::Lagrange2::" not in s:
        return "trial"
    return None


def split_targs(s):
    """top-level template arguments of the last <...> group of s"""
    depth = 0
    end = s.rfind(">")
    if end < 0:
        return []
    i = end
    while i >= 0:
        if s[i] == ">":
            depth += 1
        elif s[i] == "<":
            depth -= 1
            if depth == 0:
                break
        i -= 1
    inner = s[i + 1:end]
    out, cur, depth = [], "", 0
    for ch in inner:
        if ch in "<(":
            depth += 1
        elif ch in ">)":
            depth -= 1
        if ch == "," and depth == 0:
            out.append(cur.strip())
            cur = ""
        else:
            cur += ch
    if cur.strip():
        out.append(cur.strip())
    return out


def _finish(ck, rule, key, problems, unknown, okmsg, file, line, sample=None):
    """definite contradictions -> violation; only unrecognised shapes -> analysis-incomplete; else discharged"""
    if problems:
        ck.ob(rule, key, False, "; ".join(problems[:3]), file, line, sample=sample)
    elif unknown:
        ck.incomplete(rule, "%s: %s" % (key, "; ".join(unknown[:3])))
    else:
        ck.ob(rule, key, True, okmsg, file, line, sample=sample)


def _strip_idx(loc):
    return loc_name(Loc(loc.root, tuple(p for p in loc.path if not (isinstance(p, int) or (isinstance(p, str) and p.startswith("#"))))))


def analyse_route(ck, facts, key, fns, two_space, kind, coeff=False):
    """fns: list of functions executed in sequence on the same state (e.g. Task::assemble, Task::scatter).
    kind: 'matrix' | 'vector'.  Verdict policy: a rule instance is a VIOLATION only for a definite contradiction
    between recognised operands (roles swapped, factor missing/doubled among recognised factors, wrong mapping);
    every operand shape the matcher does not recognise makes the instance analysis-incomplete."""
    sx = AbsSymEx([facts], inline_filter=route_filter)
    f0 = fns[0]
    try:
        for n, f in enumerate(fns):
            sx.run(f, prefix="Q%d_" % n)
    except NotClosedForm as e:
        ck.incomplete("E1.accumulate-roles", "%s: %s" % (key, e))
        return
    evs = sx.events

    def val(a):
        try:
            return sx.rv(a) if isinstance(a, Loc) and a.key() in sx.store else a
        except NotClosedForm:
            return a

    evals = [e for e in evs if e["kind"] == "call" and e["callee"].endswith("::eval") and e["pn"] in (["phi", "psi"], ["psi"])]
    if not evals:
        ck.incomplete("E1.accumulate-roles", "%s: no operator/functional eval call found on the route" % key)
        return
    fills = {}   # data loc name -> event of the space evaluator call that fills it
    trafo_fill = {}
    for e in evs:
        if e["kind"] == "call" and e["callee"].endswith("::operator()") and len(e["args"]) == 2 and e["this"] is not None and isinstance(e["args"][0], Loc):
            cls = e["ccls"] or e["callee"]
            if cls.startswith("FEAT::Trafo::"):
                trafo_fill[loc_name(e["args"][0])] = e
            elif cls.startswith("FEAT::Space::"):
                fills[loc_name(e["args"][0])] = e
    evaluators = {loc_name(e["this"]) for e in fills.values()}
    weights = {("CALL%d:get_weight" % e["n"]): e for e in evs if e["callee"].endswith("::get_weight")}
    points = {("CALL%d:get_point" % e["n"]): e for e in evs if e["callee"].endswith("::get_point")}
    loops = {}
    for l in sx.loops:
        for v in l["vars"]:
            loops[v["sym"]] = l

    for e in evals:
        esym = "CALL%d:eval" % e["n"]
        # --- destination entries (accumulators: locations with a loop-index subscript) ---------------
        dst = []
        for r, d in sx.store.m.items():
            for p, v in d.items():
                if isinstance(v, Poly) and any(isinstance(x, str) and x.startswith("#") for x in p) and any(s == esym or s.startswith(esym + "[") for s in v.symbols()):
                    dst.append((Loc(r, p), v))
        if not dst:
            ck.incomplete("E1.accumulate-roles", "%s: the value of %s (line %s) is not accumulated into a local matrix/vector by a recognised construct" % (key, e["callee"].rsplit("::", 2)[-2] + "::eval", e["line"]))
            continue
        if kind == "matrix":
            phi, psi = e["args"][0], e["args"][1]
        else:
            phi, psi = None, e["args"][0]
        problems, punk = [], []

        def data_of(a, what):
            if isinstance(a, Loc) and len(a.path) >= 2 and a.path[-2] == "phi" and isinstance(a.path[-1], int):
                # a fixed basis function inside the loops over the basis functions: definite
                problems.append("%s argument is the fixed basis function %s, not the basis function of a loop index" % (what, a))
                return None, None
            if not isinstance(a, Loc) or len(a.path) < 2 or a.path[-2] != "phi" or not (isinstance(a.path[-1], str) and a.path[-1].startswith("#")):
                punk.append("%s argument %s is not <evaluation data>.phi[<loop index>]" % (what, a))
                return None, None
            return loc_name(Loc(a.root, a.path[:-2])), a.path[-1][1:]
        psi_data, psi_idx = data_of(psi, "psi")
        phi_data, phi_idx = data_of(phi, "phi") if phi is not None else (None, None)
        for what, dn, want in (("psi", psi_data, "test"), ("phi", phi_data, "trial")):
            if dn is None:
                continue
            fe = fills.get(dn)
            if fe is None:
                punk.append("%s data %s is not filled by a recognised space evaluator call on this route" % (what, dn))
                continue
            role = space_role(fe["ccls"] or fe["callee"])
            if two_space:
                if role is None:
                    punk.append("role of the evaluator %s not recognised" % loc_name(fe["this"]))
                elif role != want:
                    problems.append("%s (the %s function) is taken from the data filled by the %s-space evaluator %s" % (what, want, role, loc_name(fe["this"])))
            idx = psi_idx if what == "psi" else phi_idx
            lp = loops.get(idx)
            if lp is None or lp["cond"] is None or lp["cond"][0] != "<":
                punk.append("%s index %s is not a recognised counted loop variable" % (what, idx))
            else:
                bound = lp["cond"][2]
                bname = bound.single_symbol() if isinstance(bound, Poly) else (loc_name(bound) if isinstance(bound, Loc) else None)
                mm = re.match(r"^CALL(\d+):get_num_local_dofs$", bname or "")
                be = evs[int(mm.group(1))] if mm else None
                who = loc_name(be["this"]) if be is not None and be["this"] is not None else None
                if who != loc_name(fe["this"]):
                    if who in evaluators:
                        problems.append("the loop over the %s index %s runs to get_num_local_dofs() of %s, the data is filled by %s" % (what, idx, who, loc_name(fe["this"])))
                    else:
                        punk.append("bound %s of the loop over the %s index is not a get_num_local_dofs() of a space evaluator" % (bname, what))
        # destination indices
        wprob, wunk = [], []
        want_idx = [psi_idx, phi_idx] if kind == "matrix" and not coeff else [psi_idx]
        names = {loc_name(l) for l, v in dst}
        for loc, v in dst:
            if loc_name(loc) not in v.symbols() and (v.symbols() & (names - {loc_name(loc)})):
                continue   # a copy of another accumulator (e.g. a named temporary handed to the scatter): same value
            idxs = [p[1:] for p in loc.path if isinstance(p, str) and p.startswith("#")]
            if None not in want_idx and idxs[:len(want_idx)] != want_idx:
                if set(idxs) <= {psi_idx, phi_idx}:
                    problems.append("eval(phi[%s], psi[%s]) is accumulated into entry %s of %s (expected row = test index %s%s)" % (phi_idx, psi_idx, idxs, _strip_idx(loc), psi_idx, ", column = trial index %s" % phi_idx if len(want_idx) > 1 else ""))
                else:
                    punk.append("destination %s is subscripted by %s" % (loc_name(loc), idxs))
            # --- increment normal form ---------------------------------------------------------------
            inc = v - Poly.sym(loc_name(loc))
            comp = []
            for p in reversed(loc.path):
                if isinstance(p, int):
                    comp.insert(0, p)
                else:
                    break
            syms = inc.symbols()
            esyms = [s for s in syms if s == esym or s.startswith(esym + "[")]
            if len(esyms) != 1 or len(comp) + len(idxs) != len(loc.path) - len([q for q in loc.path if isinstance(q, str) and not q.startswith("#")]):
                wunk.append("increment of %s is %s: not a single component of the eval value" % (loc_name(loc), inc))
                continue
            if esyms[0] != esym + "".join("[%d]" % c for c in comp):
                wunk.append("component %s of the eval value goes to %s" % (esyms[0], loc_name(loc)))
                continue
            es = Poly.sym(esyms[0])
            wsyms = [s for s in syms if s in weights]
            jsyms = [s for s in syms if s.endswith(".jac_det")]
            csyms = [s for s in syms if phi_idx is not None and s.endswith("[%s]" % phi_idx) and not s.startswith(esym)] if coeff else []
            other = [s for s in syms if s not in wsyms and s not in jsyms and s not in csyms and not (s == esym or s.startswith(esym + "["))]
            if other:
                wunk.append("increment of %s contains the unrecognised factors %s" % (loc_name(loc), sorted(other)[:3]))
                continue
            want = es
            ok_counts = len(wsyms) == 1 and len(jsyms) == 1 and (not coeff or len(csyms) == 1)
            if ok_counts:
                want = es * Poly.sym(wsyms[0]) * Poly.sym(jsyms[0])
                if coeff:
                    want = want * Poly.sym(csyms[0])
            if not ok_counts or inc != want:
                wprob.append("increment of %s is %s, expected eval * jac_det * weight(k)%s with each factor exactly once" % (loc_name(loc), inc, " * coeff(j)" if coeff else ""))
                continue
            # weight and jac_det belong to the same cubature point as the data
            we = weights[wsyms[0]]
            kv = val(we["args"][0]) if we["args"] else None
            kname = kv.single_symbol() if isinstance(kv, Poly) else None
            tdn = jsyms[0][:-len(".jac_det")]
            te = trafo_fill.get(tdn)
            if isinstance(kv, Poly) and kv.const_value() is not None:
                wprob.append("the weight is that of the fixed cubature point %s, not of the point the data is computed at" % kv)
            elif kname is None or kname not in loops:
                wunk.append("the weight index %s is not a recognised cubature loop variable" % kv)
            elif te is None:
                wunk.append("jac_det is read from %s which is not filled by a recognised trafo evaluator call" % tdn)
            else:
                pt = te["args"][1]
                pname = loc_name(pt) if isinstance(pt, Loc) else None
                pe = points.get(pname)
                pk = val(pe["args"][0]) if pe is not None and pe["args"] else None
                if pe is None or not isinstance(pk, Poly) or pk.single_symbol() is None:
                    wunk.append("the point %s the trafo data is computed at is not a recognised get_point(k)" % pname)
                elif pk.single_symbol() != kname or loc_name(pe["this"]) != loc_name(we["this"]):
                    wprob.append("the trafo data is computed at %s.get_point(%s) but the weight is %s.get_weight(%s)" % (loc_name(pe["this"]), pk, loc_name(we["this"]), kname))
                lp = loops[kname]
                b = lp["cond"][2] if lp["cond"] else None
                bn = b.single_symbol() if isinstance(b, Poly) else (loc_name(b) if isinstance(b, Loc) else None)
                mm = re.match(r"^CALL(\d+):get_num_points$", bn or "")
                if not mm:
                    wunk.append("the bound %s of the cubature loop is not a recognised get_num_points()" % bn)
                elif loc_name(evs[int(mm.group(1))]["this"]) != loc_name(we["this"]):
                    wprob.append("the cubature loop runs to get_num_points() of %s, the weights are those of %s" % (loc_name(evs[int(mm.group(1))]["this"]), loc_name(we["this"])))
                for dn in (psi_data, phi_data):
                    fe = fills.get(dn) if dn else None
                    if fe is not None and isinstance(fe["args"][1], Loc) and loc_name(fe["args"][1]) != tdn and loc_name(fe["args"][1]) in trafo_fill:
                        wprob.append("basis data %s is evaluated with trafo data %s, jac_det comes from %s" % (dn, fe["args"][1], tdn))
        _finish(ck, "E1.accumulate-roles", key, problems, punk, "eval(%spsi = test[%s]) -> entry (%s)" % (("phi = trial[%s], " % phi_idx) if phi_idx else "", psi_idx, ",".join(x for x in (psi_idx, phi_idx if not coeff else None) if x)), f0.file, e["line"],
                sample={"dst": loc_name(dst[0][0]), "value": str(dst[0][1])[:200]})
        _finish(ck, "E7.weight-once", key, wprob, wunk, "increment = eval * jac_det * weight(k)%s, same cubature point" % (" * coeff(j)" if coeff else ""), f0.file, e["line"])

        # --- scatter -----------------------------------------------------------------------------------
        sprob, sunk = [], []
        dst_roots = sorted({_strip_idx(l) for l, v in dst})
        scat = [s for s in evs if s["kind"] == "call" and "ScatterAxpy::operator()" in s["callee"] and s["args"] and isinstance(s["args"][0], Loc) and loc_name(s["args"][0]) in dst_roots]
        if not scat:
            sunk.append("the accumulated local %s %s is not handed to a recognised ScatterAxpy call" % (kind, dst_roots))
        elif len(scat) > 1:
            sprob.append("the accumulated local %s is scattered %d times" % (kind, len(scat)))
        else:
            s = scat[0]
            targs = split_targs(s["cfull"])
            nmap = 2 if (kind == "matrix" and not coeff) else 1
            maps = s["args"][1:1 + nmap]
            want_roles = ["test", "trial"][:nmap]
            if len(targs) < 1 + nmap or len(maps) != nmap:
                sunk.append("unexpected ScatterAxpy signature %s" % s["cfull"][-80:])
            else:
                for pos, (mp, want) in enumerate(zip(maps, want_roles)):
                    role = space_role(targs[1 + pos])
                    pname = s["pn"][1 + pos] if len(s["pn"]) > 1 + pos else "?"
                    if two_space:
                        if role is None:
                            sunk.append("role of the dof mapping %s not recognised" % mp)
                        elif role != want:
                            sprob.append("ScatterAxpy parameter %s receives the %s dof mapping %s (expected the %s mapping)" % (pname, role, mp, want))
            if coeff:
                gat = [g for g in evs if g["kind"] == "call" and "GatherAxpy::operator()" in g["callee"]]
                csrc = None
                for l, v in dst:
                    for sname in v.symbols():
                        if phi_idx is not None and sname.endswith("[%s]" % phi_idx) and not sname.startswith(esym):
                            csrc = sname.split("[")[0]
                mine = [g for g in gat if isinstance(g["args"][0], Loc) and loc_name(g["args"][0]) == csrc]
                if len(mine) != 1:
                    sunk.append("the coefficient vector %s used in the accumulation is not filled by a recognised GatherAxpy call" % csrc)
                else:
                    ta = split_targs(mine[0]["cfull"])
                    role = space_role(ta[1]) if len(ta) > 1 else None
                    if two_space:
                        if role is None:
                            sunk.append("role of the gather mapping not recognised")
                        elif role != "trial":
                            sprob.append("coefficients are gathered with the %s dof mapping (expected the trial mapping)" % role)
        _finish(ck, "E1.scatter-roles", key, sprob, sunk, "scatter(%s; row = test mapping%s)" % (dst_roots[0], ", column = trial mapping" if kind == "matrix" and not coeff else ""), f0.file, (scat[0]["line"] if scat else f0.line))


def is_member_route(fns):
    return any(f.cls and "Task" in f.cls for f in fns)


def check_routes(ck, facts, tier):
    routes = []
    by = {}
    for f in facts.functions:
        if f.tk == "pattern":
            continue
        by.setdefault((strip_targs(f.cls), f.name), []).append(f)

    def shortsig(f):
        blocked = "BCSR" in f.full or "Blocked" in f.full
        return "blocked" if blocked else "scalar"
    for f in by.get(("FEAT::Assembly::BilinearOperatorAssembler", "assemble_matrix2"), []):
        routes.append(("BilinearOperatorAssembler::assemble_matrix2/" + shortsig(f), [f], True, "matrix", False))
    for f in by.get(("FEAT::Assembly::BilinearOperatorAssembler", "assemble_matrix1"), []):
        routes.append(("BilinearOperatorAssembler::assemble_matrix1/" + shortsig(f), [f], False, "matrix", False))
    for f in by.get(("FEAT::Assembly::BilinearOperatorAssembler", "apply2"), []):
        routes.append(("BilinearOperatorAssembler::apply2/" + shortsig(f), [f], True, "matrix", True))
    for f in by.get(("FEAT::Assembly::BilinearOperatorAssembler", "apply1"), []):
        routes.append(("BilinearOperatorAssembler::apply1/" + shortsig(f), [f], False, "matrix", True))
    for f in by.get(("FEAT::Assembly::LinearFunctionalAssembler", "assemble_vector"), []):
        routes.append(("LinearFunctionalAssembler::assemble_vector/" + shortsig(f), [f], False, "vector", False))
    # job tasks: CRTP base assemble() + scatter()
    for base, kind, two in (("FEAT::Assembly::BasicMatrixAssemblyTaskCRTP1", "matrix", False), ("FEAT::Assembly::BasicMatrixAssemblyTaskCRTP2", "matrix", True), ("FEAT::Assembly::BasicVectorAssemblyTaskCRTP", "vector", False)):
        for f in by.get((base, "assemble"), []):
            sc = [g for g in by.get((base, "scatter"), []) if g.cls == f.cls]
            if not sc:
                ck.incomplete("E1.scatter-roles", "%s: scatter() not instantiated" % f.cls[:100])
                continue
            m = re.search(r"FEAT::Assembly::(\w+Job\d?)<", f.cls)
            routes.append(("%s::Task/%s" % (m.group(1) if m else base.rsplit("::", 1)[-1], shortsig(f)), [f, sc[0]], two, kind, False))
    seen = set()
    for key, fns, two, kind, coeff in sorted(routes, key=lambda r: r[0]):
        if key in seen:
            continue
        seen.add(key)
        if kind == "vector" and "ForceFunctionalAssemblyJob" in key:
            analyse_force_task(ck, facts, key, fns)
            continue
        analyse_route(ck, facts, key, fns, two, kind, coeff)


def analyse_force_task(ck, facts, key, fns):
    """ForceFunctionalAssemblyJob::Task::eval is itself the integrand: val += f(x) * weight * psi.value"""
    sx = AbsSymEx([facts], inline_filter=route_filter)
    f0 = fns[0]
    try:
        for n, f in enumerate(fns):
            sx.run(f, prefix="Q%d_" % n)
    except NotClosedForm as e:
        ck.incomplete("E1.accumulate-roles", "%s: %s" % (key, e))
        return
    dst = []
    for r, d in sx.store.m.items():
        for p, v in d.items():
            if isinstance(v, Poly) and any(s.endswith(".jac_det") for s in v.symbols()) and any(isinstance(e, str) and e.startswith("#") for e in p):
                dst.append((Loc(r, p), v))
    problems, wprob = [], []
    if not dst:
        ck.incomplete("E1.accumulate-roles", "%s: no accumulation into the local vector recognised" % key)
        return
    for loc, v in dst:
        inc = v - Poly.sym(loc_name(loc))
        idx = [p[1:] for p in loc.path if isinstance(p, str) and p.startswith("#")]
        syms = sorted(inc.symbols())
        ws = [s for s in syms if re.match(r"^CALL\d+:get_weight$", s)]
        js = [s for s in syms if s.endswith(".jac_det")]
        ps = [s for s in syms if s.endswith(".phi[%s].value" % (idx[0] if idx else "?"))]
        fs = [s for s in syms if s not in ws and s not in js and s not in ps]
        if len(ps) != 1:
            problems.append("increment %s does not contain psi[%s].value exactly once" % (inc, idx))
        if len(fs) > 1:
            ck.incomplete("E7.weight-once", "%s: increment %s contains the unrecognised factors %s" % (key, inc, fs))
            return
        if len(ws) != 1 or len(js) != 1 or len(fs) != 1 or inc.degree() != 4 or len(inc.t) != 1:
            wprob.append("increment of %s is %s, expected f(x) * psi.value * jac_det * weight(k)" % (loc_name(loc), inc))
    ck.ob("E1.accumulate-roles", key, not problems, "; ".join(problems[:2]) if problems else "f(x) * psi[i].value -> entry (i)", f0.file, f0.line)
    ck.ob("E7.weight-once", key, not wprob, "; ".join(wprob[:2]) if wprob else "increment = f * psi.value * jac_det * weight(k)", f0.file, f0.line)
    scat = [s for s in sx.events if "ScatterAxpy::operator()" in s["callee"]]
    mine = [s for s in scat if isinstance(s["args"][0], Loc) and loc_name(s["args"][0]) in {_strip_idx(l) for l, v in dst}]
    if not mine:
        ck.incomplete("E1.scatter-roles", "%s: the accumulated local vector is not handed to a recognised ScatterAxpy call" % key)
        return
    ck.ob("E1.scatter-roles", key, len(mine) == 1, "the accumulated local vector is scattered once with the dof mapping" if len(mine) == 1 else "the accumulated local vector is scattered %d times" % len(mine), f0.file, f0.line)


# -------------------------------------------------------------------------------------------------
# scatter / gather helpers
# -------------------------------------------------------------------------------------------------

def check_scatter(ck, facts, tier):
    """Verdict policy as for the routes: a definite contradiction between recognised index expressions is a
    violation, an index expression of an unrecognised shape is analysis-incomplete."""
    seen = set()
    for f in sorted(facts.functions, key=lambda f: f.full):
        m = re.match(r"^FEAT::LAFEM::(SparseMatrixCSR|SparseMatrixBCSR|DenseVector|DenseVectorBlocked)<[^:]*>::(ScatterAxpy|GatherAxpy)$", f.cls)
        if not m or f.name != "operator()" or f.tk == "pattern":
            continue
        cont, what = m.group(1), m.group(2)
        key = "%s::%s" % (cont, what)
        if key in seen:
            continue
        seen.add(key)
        # helpers extracted from the functor (private members of the same class, static / `_private` functions of the same
        # header, e.g. a column search shared by the scatter and the gather twin) belong to the functor body
        sx = AbsSymEx([facts], inline_filter=lambda t, c, f=f: "/kernel/util/tiny_algebra.hpp" in t.file or
                      (t.file == f.file and (t.cls == f.cls or t.name.startswith("_"))))
        try:
            sx.run(f)
        except NotClosedForm as e:
            ck.incomplete("E2.scatter-gather", "%s: %s" % (key, e))
            continue
        evs = sx.events
        idx_calls = {("CALL%d:get_index" % e["n"]): e for e in evs if e["callee"].endswith("::get_index")}
        loops = {}
        for l in sx.loops:
            for v in l["vars"]:
                loops[v["sym"]] = l
        problems, unknown = [], []
        matrix = cont.startswith("SparseMatrix")
        P = ["P%d" % i for i in range(len(f.params))]

        def mapping_index(sym, want_param, what_idx):
            """sym = CALLn:get_index -> loop variable, provided it is <want_param>.get_index(<loop var bounded by that
            mapping's get_num_local_dofs>)"""
            e = idx_calls.get(sym)
            if e is None:
                unknown.append("%s index %s is not a get_index() value" % (what_idx, sym))
                return None
            who = loc_name(e["this"]) if e["this"] is not None else "?"
            if who != want_param:
                (problems if who in P else unknown).append("%s index %s comes from %s, expected the mapping parameter %s" % (what_idx, sym, who, want_param))
                return None
            a = e["args"][0]
            av = sx.rv(a) if isinstance(a, Loc) else a
            lv = av.single_symbol() if isinstance(av, Poly) else None
            lp = loops.get(lv)
            if lp is None or not lp["cond"] or lp["cond"][0] != "<":
                unknown.append("argument %s of get_index is not a recognised counted loop variable" % av)
                return None
            b = lp["cond"][2]
            bn = b.single_symbol() if isinstance(b, Poly) else (loc_name(b) if isinstance(b, Loc) else "")
            mm = re.match(r"^CALL(\d+):get_num_local_dofs$", bn or "")
            if not mm:
                unknown.append("bound %s of the loop over %s is not a get_num_local_dofs()" % (bn, lv))
                return None
            who2 = loc_name(evs[int(mm.group(1))]["this"])
            if who2 != want_param:
                (problems if who2 in P else unknown).append("the loop over the %s index runs to %s.get_num_local_dofs(), the index is taken from %s" % (what_idx, who2, want_param))
                return None
            return lv

        if matrix:
            # 1. column table: tab[col_idx[k]] = k with k in [row_ptr[row], row_ptr[row+1])
            table = [(p, v) for p, v in sx.store.root("this").items() if len(p) == 2 and isinstance(p[1], str) and p[1].startswith("#") and isinstance(v, Poly) and v.single_symbol() in loops]
            rowvar = tabname = None
            if len(table) != 1:
                unknown.append("no unique column-pointer table write of the form tab[col_idx[k]] = k (found %d)" % len(table))
            else:
                (tp, tv) = table[0]
                tabname = tp[0]
                ksym = tv.single_symbol()
                if not re.match(r"^#this\.(\w+)\[%s\]$" % re.escape(ksym), tp[1]):
                    unknown.append("column table is indexed by %s, expected <column index array>[%s]" % (tp[1][1:], ksym))
                lp = loops[ksym]
                init = lp["vars"][0]["init"]
                iname = init.single_symbol() if isinstance(init, Poly) else None
                bound = lp["cond"][2] if lp["cond"] and lp["cond"][0] == "<" else None
                bname = bound.single_symbol() if isinstance(bound, Poly) else None
                mi = re.match(r"^this\.(\w+)\[(.+)\]$", iname or "")
                mb = re.match(r"^this\.(\w+)\[1 \+ (.+)\]$", bname or "")
                if not mi or not mb or mi.group(1) != mb.group(1):
                    unknown.append("column search runs over [%s, %s): not of the form [ptr[r], ptr[r+1])" % (iname, bname))
                elif mi.group(2) != mb.group(2):
                    problems.append("column search runs over [%s, %s): the two ends belong to different rows" % (iname, bname))
                elif not re.match(r"^CALL\d+:get_index$", mi.group(2)):
                    problems.append("column search runs over the segment of row %s, which is not a global row index obtained from the row mapping's get_index()" % mi.group(2))
                else:
                    rowvar = mapping_index(mi.group(2), P[1], "row")
            # 2. data access
            if what == "ScatterAxpy":
                acc = [(p, v) for p, v in sx.store.root("this").items() if isinstance(v, Poly) and any(s.startswith(P[0] + "[") for s in v.symbols())]
            else:
                acc = [(p, v) for p, v in sx.store.root(P[0]).items() if isinstance(v, Poly) and any(s.startswith("this.") for s in v.symbols())]
            if not acc:
                unknown.append("no accumulation between the local matrix and the matrix data recognised")
            for p, v in acc[:64]:
                root = "this" if what == "ScatterAxpy" else P[0]
                inc = v - Poly.sym(loc_name(Loc(root, p)))
                syms = inc.symbols()
                dsyms = [s for s in syms if s.startswith("this.")] if what == "GatherAxpy" else []
                dname = loc_name(Loc("this", p)) if what == "ScatterAxpy" else (dsyms[0] if len(dsyms) == 1 else "")
                mm = re.match(r"^this\.(\w+)\[this\.(\w+)\[(CALL\d+:get_index)\]\](.*)$", dname)
                if not mm:
                    unknown.append("matrix data is addressed as %s, not as data[col_ptr[col_map.get_index(j)]]" % dname)
                    continue
                if tabname is not None and mm.group(2) != tabname:
                    problems.append("data index is read from %s, the column search fills %s" % (mm.group(2), tabname))
                jv = mapping_index(mm.group(3), P[2], "column")
                if jv is None or rowvar is None:
                    continue
                blk = mm.group(4)
                lname = "%s[%s][%s]%s" % (P[0], rowvar, jv, blk)
                if what == "ScatterAxpy":
                    want = Poly.sym(P[3]) * Poly.sym(lname)
                    known = {P[3]} | {s for s in syms if s.startswith(P[0] + "[")}
                else:
                    if loc_name(Loc(P[0], p)) != lname:
                        problems.append("gathered into %s, expected %s" % (loc_name(Loc(P[0], p)), lname))
                    want = Poly.sym(P[3]) * Poly.sym(dname)
                    known = {P[3], dname}
                if inc != want:
                    (problems if syms <= known else unknown).append("increment is %s, expected %s" % (inc, want))
        else:
            root_dst = "this" if what == "ScatterAxpy" else P[0]
            acc = [(p, v) for p, v in sx.store.root(root_dst).items() if isinstance(v, Poly) and len(v.symbols()) >= 2 and any(isinstance(e, str) and e.startswith("#") for e in p)]
            if not acc:
                unknown.append("no accumulation between the local vector and the vector data recognised")
            for p, v in acc[:16]:
                inc = v - Poly.sym(loc_name(Loc(root_dst, p)))
                syms = inc.symbols()
                dname = loc_name(Loc("this", p)) if what == "ScatterAxpy" else ([s for s in syms if s.startswith("this.")] or [""])[0]
                mm = re.match(r"^this\.(\w+)\[(CALL\d+:get_index)\](.*)$", dname)
                if not mm:
                    unknown.append("vector data is addressed as %s, not as data[map.get_index(i)]" % dname)
                    continue
                iv = mapping_index(mm.group(2), P[1], "vector")
                if iv is None:
                    continue
                lname = "%s[%s]%s" % (P[0], iv, mm.group(3))
                if what == "ScatterAxpy":
                    want = Poly.sym(P[2]) * Poly.sym(lname)
                    known = {P[2]} | {s for s in syms if s.startswith(P[0] + "[")}
                else:
                    if loc_name(Loc(P[0], p)) != lname:
                        problems.append("gathered into %s, expected %s" % (loc_name(Loc(P[0], p)), lname))
                    want = Poly.sym(P[2]) * Poly.sym(dname)
                    known = {P[2], dname}
                if inc != want:
                    (problems if syms <= known else unknown).append("increment is %s, expected %s" % (inc, want))
        _finish(ck, "E2.scatter-gather", key, problems, unknown, "row/column indices from the mappings, search inside the row segment, value alpha * loc(i,j)", f.file, f.line)


# -------------------------------------------------------------------------------------------------
# symbolic assembler
# -------------------------------------------------------------------------------------------------

def check_symbolic(ck, facts, tier):
    for f in sorted(facts.functions, key=lambda f: f.full):
        if strip_targs(f.cls) != "FEAT::Assembly::SymbolicAssembler" or not f.name.startswith("assemble_graph_") or f.tk == "pattern":
            continue
        if f.name not in ("assemble_graph_std1", "assemble_graph_std2", "assemble_graph_ext_facet1", "assemble_graph_ext_facet2", "assemble_graph_ext_node1", "assemble_graph_ext_node2", "assemble_graph_diag"):
            continue
        key = "SymbolicAssembler::" + f.name
        two = f.name.endswith("2")
        # dataflow over the Graph constructor calls: each local Graph variable gets a symbolic description; helpers of the
        # assembler that return a Graph (extracted / shared bodies of the twin functions) are described with their
        # parameters bound to the roles of the caller's arguments (depth <= 3)
        problems = []
        by_decl = {g.d.get("decl"): g for g in facts.functions if g.tk != "pattern" and g.body is not None and g.d.get("decl") is not None}

        def describe_function(fn, prole, depth):
            desc = {}

            def describe(n):
                k = n.get("k")
                if k == "Ref":
                    return desc.get(n.get("d"), ("?", n.get("n")))
                if featlib.is_call(n):
                    c = n.get("callee", "")
                    if c.endswith("DofMappingRenderer::render"):
                        a = n["a"][0]
                        return ("dofs", prole.get(a.get("d"), "?")) if a.get("k") == "Ref" else ("?", "render")
                    if strip_targs(c) == "FEAT::Adjacency::Graph::Graph":
                        args = n.get("a", [])
                        if len(args) == 1:
                            return describe(args[0])
                        rt = args[0]
                        rtn = (rt.get("qn") or rt.get("n") or "").rsplit("::", 1)[-1]
                        if rtn == "transpose" and len(args) == 2:
                            return ("T", describe(args[1]))
                        if rtn in ("injectify", "injectify_sorted", "as_is", "as_is_sorted") and len(args) == 3:
                            return ("o", rtn, describe(args[1]), describe(args[2]))
                        if rtn in ("injectify", "injectify_sorted", "as_is", "as_is_sorted") and len(args) == 2:
                            return ("id", rtn, describe(args[1]))
                        return ("?", "Graph(%s,...)" % rtn)
                    tgt = by_decl.get(n.get("cdecl"))
                    if tgt is not None and depth < 3 and strip_targs(tgt.cls) == "FEAT::Assembly::SymbolicAssembler" and "Adjacency::Graph" in (tgt.type(tgt.d.get("ret")) if tgt.d.get("ret") is not None else ""):
                        sub = {}
                        for pp, a in zip(tgt.params, n.get("a", [])):
                            a0 = norm.strip(a) or {}
                            if a0.get("k") == "Ref" and a0.get("d") in prole:
                                sub[pp["d"]] = prole[a0["d"]]
                        return describe_function(tgt, sub, depth + 1)
                    if n.get("k") == "MCall":
                        return ("call", n.get("n"), describe(n["obj"]) if n.get("obj") else None)
                    return ("call", c.rsplit("::", 1)[-1])
                if k in ("Construct", "TempObj") and len(n.get("a", [])) == 1:
                    return describe(n["a"][0])
                return ("?", k)
            graph_vars = {n["d"] for n in walk(fn.body) if n.get("k") == "Var" and "Graph" in fn.type(n.get("t"))}
            rets = []
            for n in walk(fn.body):
                if n.get("k") == "Var" and n.get("init") is not None and "Graph" in fn.type(n.get("t")):
                    desc[n["d"]] = describe(n["init"])
                # a Graph local declared first and assigned later (`Graph g; g = Graph(...)`): the assigned value; a second,
                # different definition makes the variable unknown (decided as analysis-incomplete below)
                if n.get("k") == "OpCall" and n.get("op") == "=" and len(n.get("a") or []) == 2 and (n["a"][0] or {}).get("k") == "Ref" and n["a"][0].get("d") in graph_vars:
                    dn = describe(n["a"][1])
                    d0 = n["a"][0]["d"]
                    desc[d0] = dn if desc.get(d0) in (None, dn, ("call", "Graph")) else ("?", "%s (several definitions)" % n["a"][0].get("n"))
                if n.get("k") == "Return" and n.get("e") is not None:
                    rets.append(describe(n["e"]))
            if not rets:
                return None
            return rets[0] if all(r == rets[0] for r in rets) else ("?", "several different return values")
        prole = {f.params[0]["d"]: "test", f.params[1]["d"]: "trial"} if two else {f.params[0]["d"]: "space"}
        ret = describe_function(f, prole, 0)

        def flat(d):
            """composition chain, left to right; transposition is pushed inside: T(A o B) = T(B) o T(A), T(T(x)) = x"""
            if d and d[0] == "o":
                return flat(d[2]) + flat(d[3])
            if d and d[0] == "T":
                x = d[1]
                if x and x[0] == "o":
                    return flat(("T", x[3])) + flat(("T", x[2]))
                if x and x[0] == "T":
                    return flat(x[1])
            return [d]
        chain = flat(ret) if ret else []
        tr, tl = ("test", "trial") if two else ("space", "space")
        if f.name == "assemble_graph_diag" and not (chain and chain[0] == ("T", ("dofs", tr))):
            ck.note("%s: pattern %s (identity-like, not a dof-graph composition)" % (key, chain))
            ck.ob("E1.symbolic-graph", key, True, "diagonal pattern: %s" % (chain,), f.file, f.line, trivial=True)
            continue

        def dofend(c):
            """('T'|'N', role) if the chain element is a (transposed) dof graph of a space, else None"""
            if c and c[0] == "dofs":
                return ("N", c[1])
            if c and c[0] == "T" and c[1] and c[1][0] == "dofs":
                return ("T", c[1][1])
            return None
        first = dofend(chain[0]) if chain else None
        last = dofend(chain[-1]) if chain else None
        pat = " o ".join(render_desc(c) for c in chain)
        if first is None or last is None or "?" in (first[1], last[1]) or (f.name.startswith("assemble_graph_std") and len(chain) != 2):
            # the ends of the composition are not recognised dof graphs (helper function, different Graph constructor, ...)
            ck.incomplete("E1.symbolic-graph", "%s: pattern %s is not recognised as a composition that starts with a transposed dof graph and ends with a dof graph" % (key, pat or ret))
            continue
        ok = first == ("T", tr) and last == ("N", tl)
        ck.ob("E1.symbolic-graph", key, ok, ("pattern = %s" % pat) + ("" if ok else "; expected transpose(%s dofs) o ... o (%s dofs)" % (tr, tl)), f.file, f.line)


def check_permutation_applied(ck, facts, tier):
    """E7.permutation-applied: decision table over the emptiness tests of the mesh permutations a symbolic-assembler function
    fetches from its spaces; on every path the returned graph depends on every fetched permutation that is not empty there."""
    rule = "E7.permutation-applied"
    seen = set()
    for f in sorted(facts.functions, key=lambda f: f.full):
        if f.tk == "pattern" or f.body is None or strip_targs(f.cls) != "FEAT::Assembly::SymbolicAssembler" or f.name in seen:
            continue
        env = norm.DefEnv(f)
        pnames = {p["d"]: p["n"] for p in f.params}
        ptypes = {p["d"]: f.type(p.get("t")) for p in f.params}
        if "Adjacency::Graph" not in (f.type(f.d.get("ret")) if f.d.get("ret") is not None else "Adjacency::Graph"):
            continue

        def perm_key(x, depth=0):
            a = env.alias(x)
            while a is not None and a.get("k") == "Ref" and depth < 6 and "Permutation" in (env.types.get(a.get("d")) or "") and env.single_def(a.get("d")) is not None:
                a = env.alias(env.single_def(a["d"]))
                depth += 1
            # (permutations received as PARAMETERS are not judged: a helper runs under its caller's emptiness tests)
            if a is None or a.get("k") != "MCall" or a.get("n") not in ("get_perm", "get_inv_perm"):
                return None
            o = env.alias(a.get("obj")) if a.get("obj") is not None else None
            hops = 0
            while o is not None and hops < 12:
                hops += 1
                if o.get("k") == "MCall" and o.get("obj") is not None:
                    o = env.alias(o["obj"])
                elif o.get("k") == "Ref" and o.get("dk") == "local" and env.single_def(o.get("d")) is not None:
                    o = env.alias(env.single_def(o["d"]))      # `const auto& mesh = space.get_trafo().get_mesh();` by value / auto
                else:
                    break
            if o is not None and o.get("k") == "Ref" and o.get("d") in pnames:
                return "%s.%s" % (pnames[o["d"]], a["n"])
            return None
        keys = sorted({k for n in f.nodes() for k in [perm_key(n)] if k})
        if not keys:
            continue
        seen.add(f.name)
        key0 = "SymbolicAssembler::%s" % f.name

        def formula(c, pol=True):
            c = norm.strip(c)
            if c is None:
                return ("atom", ("O", "?"))
            if c.get("k") == "Un" and c.get("op") == "!":
                return ("not", formula(c.get("e")))
            if c.get("k") == "Bin" and c.get("op") in ("&&", "||"):
                return ("and" if c["op"] == "&&" else "or", formula(c["lhs"]), formula(c["rhs"]))
            if c.get("k") == "Bool":
                return ("const", bool(c.get("v")))
            if c.get("k") == "MCall" and c.get("n") == "empty" and perm_key(c.get("obj")):
                return ("atom", ("E", perm_key(c["obj"])))
            if c.get("k") == "Bin" and c.get("op") in ("==", "!=", ">", "<"):
                for a, b, op in ((c["lhs"], c["rhs"], c["op"]), (c["rhs"], c["lhs"], {"<": ">", ">": "<"}.get(c["op"], c["op"]))):
                    a, b = norm.strip(a), norm.strip(b)
                    while b is not None and b.get("k") in ("Construct", "TempObj") and len(b.get("a") or []) == 1:
                        b = norm.strip(b["a"][0])
                    if a is not None and a.get("k") == "MCall" and a.get("n") == "size" and perm_key(a.get("obj")) and b is not None and b.get("k") == "Int" and int(b.get("v", 1)) == 0:
                        at = ("atom", ("E", perm_key(a["obj"])))
                        if op == "==":
                            return at
                        if op in ("!=", ">"):
                            return ("not", at)
            if c.get("k") == "Ref" and env.single_def(c.get("d")) is not None and "bool" in (env.types.get(c.get("d")) or ""):
                return formula(env.single_def(c["d"]))
            return ("atom", ("O", featlib.render(c)))

        def atoms_of(fm, out):
            if fm[0] == "atom":
                out.add(fm[1])
            elif fm[0] in ("and", "or"):
                atoms_of(fm[1], out); atoms_of(fm[2], out)
            elif fm[0] == "not":
                atoms_of(fm[1], out)
            return out

        def ev(fm, asg):
            t = fm[0]
            if t == "const":
                return fm[1]
            if t == "atom":
                return asg[fm[1]]
            if t == "not":
                return not ev(fm[1], asg)
            a, b = ev(fm[1], asg), ev(fm[2], asg)
            return (a and b) if t == "and" else (a or b)
        atoms = set()
        unsupported = []
        for n in f.nodes():
            if n.get("k") in ("If", "Cond", "While", "Do", "For") and n.get("c") is not None:
                atoms_of(formula(n["c"]), atoms)
            if n.get("k") in ("Switch", "Try"):
                unsupported.append("%s at line %s" % (n.get("k"), n.get("l")))
        atoms = sorted(atoms)
        if unsupported or len(atoms) > 10:
            ck.incomplete(rule, "%s: %s" % (key0, unsupported[0] if unsupported else "more than 10 branch conditions"))
            continue

        def run_paths(asg):
            state = {}
            results = []
            applied = {}      # permutation key -> line where it is handed to a call as an operand

            def root(x):
                a = env.alias(x)
                while a is not None and a.get("k") in ("Index", "Member", "MCall", "OpCall"):
                    a = env.alias(a.get("b") or a.get("obj") or (a.get("a") or [None])[0])
                return a.get("d") if a is not None and a.get("k") == "Ref" and a.get("dk") in ("local", "param") else None

            def T(x):
                if not isinstance(x, dict):
                    return frozenset()
                k = perm_key(x)
                if k:
                    return frozenset([k])
                kk = x.get("k")
                if kk == "Ref":
                    return state.get(x.get("d"), frozenset())
                if kk == "MCall" and x.get("n") in ("empty", "size") and perm_key(x.get("obj")):
                    return frozenset()
                if kk == "Cond":
                    return T(x.get("then") if ev(formula(x["c"]), asg) else x.get("else"))
                if kk == "Lambda":
                    return frozenset()
                out = frozenset()
                for c in featlib.children(x):
                    out |= T(c)
                return out

            def effects(x):
                """stores performed by the expression x"""
                for n in walk(x):
                    kk = n.get("k")
                    if kk == "Assign" or (kk == "OpCall" and n.get("op") in _ASSIGN_OPS and len(n.get("a") or []) == 2):
                        lhs, rhs = (n.get("lhs"), n.get("rhs")) if kk == "Assign" else (n["a"][0], n["a"][1])
                        r = root(lhs)
                        if r is not None:
                            plain = (env.alias(lhs) or {}).get("k") == "Ref" and n.get("op", "=") == "="
                            state[r] = T(rhs) if plain else (state.get(r, frozenset()) | T(rhs))
                    elif featlib.is_call(n) and kk in ("Call", "MCall", "OpCall", "Construct", "TempObj"):
                        args = n.get("a") or []
                        allT = frozenset().union(*[T(a) for a in args]) if args else frozenset()
                        # only the consumers that dereference a permutation (Adjacency::Graph / Permutation members) count as an
                        # application; a helper of the assembler that receives the permutation may test emptiness itself
                        if (n.get("callee") or "").startswith("FEAT::Adjacency::"):
                            for a in args:
                                if perm_key(a):
                                    applied.setdefault(perm_key(a), n.get("l"))
                        if kk == "MCall" and n.get("obj") is not None:
                            allT |= T(n["obj"])
                            if not n.get("cconst"):
                                r = root(n["obj"])
                                if r is not None:
                                    state[r] = state.get(r, frozenset()) | allT
                        pts = n.get("pt") or []
                        off = 1 if (kk == "OpCall" and len(pts) == len(args) - 1) else 0
                        for pos, a in enumerate(args):
                            if pos < off or pos - off >= len(pts):
                                continue
                            ty = f.type(pts[pos - off])
                            if ty.rstrip().endswith("&") and not ty.lstrip().startswith("const ") and not ty.rstrip().endswith("&&"):
                                r = root(a)
                                if r is not None:
                                    state[r] = state.get(r, frozenset()) | allT

            def walk_stmt(st):
                if not isinstance(st, dict):
                    return True
                kk = st.get("k")
                if kk == "Block":
                    for s2 in st.get("s") or []:
                        if not walk_stmt(s2):
                            return False
                    return True
                if kk == "Decl":
                    for v in st.get("vars") or []:
                        if v.get("init") is not None:
                            effects(v["init"])
                            state[v["d"]] = T(v["init"])
                    return True
                if kk == "If":
                    br = st.get("then") if ev(formula(st["c"]), asg) else st.get("else")
                    return walk_stmt(br) if br is not None else True
                if kk in ("For", "While", "Do", "ForRange"):
                    for _ in range(2):
                        if st.get("init") is not None:
                            walk_stmt(st["init"]) if st["init"].get("k") in ("Decl", "Block") else effects(st["init"])
                        walk_stmt(st.get("body"))
                        if st.get("inc") is not None:
                            effects(st["inc"])
                    return True
                if kk == "Return":
                    if st.get("e") is not None:
                        effects(st["e"])
                        results.append((st.get("l"), T(st["e"]), dict(applied)))
                    return False
                if kk in ("Break", "Continue", "Null_"):
                    return True
                if kk == "Throw" or (featlib.is_call(st) and st.get("noreturn")):
                    return False
                effects(st)
                return True
            walk_stmt(f.body)
            return results
        e_atoms = [a for a in atoms if a[0] == "E"]
        o_atoms = [a for a in atoms if a[0] == "O"]
        for ebits in itertools.product((True, False), repeat=len(e_atoms)):
            problems = []
            nret = 0
            empties = dict(zip([a[1] for a in e_atoms], ebits))
            required = {k for k in keys if not empties.get(k, False)}
            for obits in itertools.product((True, False), repeat=len(o_atoms)):
                asg = dict(zip(e_atoms, ebits))
                asg.update(dict(zip(o_atoms, obits)))
                for line, taint, applied in run_paths(asg):
                    nret += 1
                    for k, l2 in sorted(applied.items()):
                        if empties.get(k):
                            problems.append("%s is handed to a call as a permutation (line %s) on a path on which it is empty (an empty Permutation has no position array: Graph(graph, perm, perm) / permute_indices dereference it)" % (k, l2))
                    miss = sorted(required - taint)
                    if miss:
                        problems.append("the graph returned at line %s does not depend on %s although %s on this path: the pattern is composed in the numbering of the unpermuted mesh" % (
                            line, ", ".join(miss), " and ".join("%s is %s" % (k, "empty" if v else "not empty") for k, v in sorted(empties.items())) or "no emptiness test guards it"))
            key = "%s/%s" % (key0, ",".join("%s=%s" % (k, "empty" if empties.get(k) else ("set" if k in empties else "untested")) for k in keys))
            if not nret:
                continue
            ck.ob(rule, key, not problems, "; ".join(sorted(set(problems))[:2]) if problems else "the returned graph depends on exactly the permutations that are not empty here (%s)" % (", ".join(sorted(required)) or "none"), f.file, f.line)


def render_desc(d):
    if not d:
        return "?"
    if d[0] == "dofs":
        return "dofs(%s)" % d[1]
    if d[0] == "T":
        return "transpose(%s)" % render_desc(d[1])
    if d[0] == "o":
        return "(%s o %s)" % (render_desc(d[2]), render_desc(d[3]))
    return str(d[1] if len(d) > 1 else d[0])


# -------------------------------------------------------------------------------------------------
# voxel assembly kernels
# -------------------------------------------------------------------------------------------------

VOXEL_FILES = "|".join([F("kernel/voxel_assembly/"), F("kernel/util/tiny_algebra.hpp")])
VOXEL_TUS = {"poisson": "kernel/voxel_assembly/arch/poisson_assembler.cpp", "defo": "kernel/voxel_assembly/arch/defo_assembler.cpp",
             "burgers": "kernel/voxel_assembly/arch/burgers_assembler.cpp"}
# runtime switches of the burgers kernels are fixed per analysed configuration (struct field / parameter names of the kernel API);
# need_streamline = false: the streamline-diffusion branch depends on a runtime norm and is not analysed
BURGERS_CONFIGS = [("deformation", {"deformation": 1, "frechet_beta": 1, "theta": 1}, {"need_streamline": 0, "need_convection": 1}),
                   ("gradient", {"deformation": 0, "frechet_beta": 1, "theta": 1}, {"need_streamline": 0, "need_convection": 1})]
POINT_PARAMS = ("dom_point", "point")


def voxel_filter(t, call):
    return t.file.endswith("/kernel/util/tiny_algebra.hpp") and t.name not in ("set_inverse", "det", "vol", "norm_euclid")


def check_voxel(ck, tier):
    for what, tu in sorted(VOXEL_TUS.items()):
        try:
            facts = featlib.extract(F(tu), files=VOXEL_FILES)
        except featlib.AnalysisBroken as e:
            ck.incomplete("E7.voxel-point-dependence", "%s: %s" % (tu, e))
            continue
        ck.tu(facts)
        for e in facts.errors_in_repo():
            ck.ob("E7.voxel-point-dependence", "E0/%s/%s" % (rel(e["file"]), re.sub(r"\d+", "N", e["msg"])[:80]), False, "front-end error %s:%d %s" % (rel(e["file"]), e["line"], e["msg"]), e["file"], e["line"])
        kernels = {}
        for f in facts.functions:
            if f.tk == "pattern" or not f.name.endswith("_assembly_kernel") or not f.qn.startswith("FEAT::VoxelAssembly::Kernel::"):
                continue
            m = re.search(r"FEAT::Shape::Hypercube<(\d)>", f.full)
            dim = int(m.group(1)) if m else 0
            dt = "double" if re.search(r"SpaceHelper<.*, double, ", f.full) else "float"
            if dt != "double" and tier == "quick":
                continue
            if dim == 3 and tier == "quick":
                continue
            kernels.setdefault((f.name, dim, dt), f)
        if not kernels:
            ck.incomplete("E7.voxel-point-dependence", "%s: no *_assembly_kernel instantiation found" % tu)
        for (name, dim, dt), f in sorted(kernels.items()):
            configs = BURGERS_CONFIGS if what == "burgers" else [("", {}, {})]
            for cname, fields, flags in configs:
                key = "%s/dim%d%s%s" % (name, dim, ("/" + cname) if cname else "", "" if dt == "double" else "/" + dt)
                analyse_voxel_kernel(ck, facts, f, key, fields, flags)


def analyse_voxel_kernel(ck, facts, f, key, fields, flags):
    names = [p["n"] for p in f.params]
    need = ["cub_pt", "cub_wg", "num_cubs"]
    if any(n not in names for n in need) or not names:
        ck.incomplete("E7.voxel-point-dependence", "%s: kernel parameters %s not found (have %s)" % (key, need, names))
        return
    P = {n: "P%d" % i for i, n in enumerate(names)}
    out_root = "P0"
    sx = AbsSymEx([facts], inline_filter=voxel_filter)
    sx.versioned = True
    for k, v in flags.items():
        if k in P:
            sx.store[(P[k], ())] = Poly.const(v)
    if fields:
        if "burgers_params" not in P:
            ck.incomplete("E7.voxel-point-dependence", "%s: parameter burgers_params not found" % key)
            return
        for k, v in fields.items():
            sx.store[(P["burgers_params"], (k,))] = Poly.const(v)
    try:
        sx.run(f, this=None)
    except NotClosedForm as e:
        ck.incomplete("E7.voxel-point-dependence", "%s: %s" % (key, e))
        return
    evs = sx.events
    # the cubature loop: bounded by num_cubs
    cub = None
    for l in sx.loops:
        c = l["cond"]
        if c and c[0] == "<" and isinstance(c[2], Poly) and c[2].single_symbol() == P["num_cubs"] and l["vars"]:
            cub = l["vars"][0]["sym"]
    if cub is None:
        ck.incomplete("E7.voxel-point-dependence", "%s: no loop `k < num_cubs` found" % key)
        return
    wsym = "%s[%s]" % (P["cub_wg"], cub)
    ptname = "%s[%s]" % (P["cub_pt"], cub)
    acc = {p: v for p, v in sx.outputs(out_root).items() if isinstance(v, Poly)}
    incs = [(p, v) for p, v in acc.items() if not v.is_zero()]
    if not incs:
        ck.incomplete("E7.voxel-weight-once", "%s: nothing is accumulated into %s" % (key, names[0]))
        return

    def at_point(ev):
        """the reference point operand of the call is cub_pt[k] of the cubature loop"""
        for pn, a in zip(ev["pn"], ev["args"]):
            if pn in POINT_PARAMS:
                if not isinstance(a, Loc):
                    return False
                nm = loc_name(a)
                return nm == ptname or ptname in ev["contents"].get(nm, ()) or any(s.startswith(ptname + "[") for s in ev["contents"].get(nm, ()))
        return None

    memo = {}

    def problems_of(n, path=()):
        """walk the definition chain of event n: every call taking a reference point must take cub_pt[k] inside the loop"""
        if n in memo:
            return memo[n]
        memo[n] = []
        ev = evs[n]
        pr = []
        short = ev["callee"].rsplit("::", 1)[-1]
        ap = at_point(ev)
        if ap is False or (ap is True and cub not in ev["loops"]):
            pr.append("%s (line %s) is evaluated %s, not at the current cubature point %s" % (short, ev["line"], "outside the cubature loop" if cub not in ev["loops"] else "at another point", "cub_pt[k]"))
        for rootname, v in ev["in_versions"].items():
            if v != n:
                pr += problems_of(v)
        memo[n] = pr
        return pr

    pprob, wprob, wunk = [], [], []
    seen_det = seen_basis = 0
    dets = set()
    vers = set()
    for p, v in incs:
        for mon, cf in v.t.items():
            ds = [(s, e) for s, e in mon if re.match(r"^CALL\d+:(det|vol)$", s)]
            ws = [(s, e) for s, e in mon if s.startswith(P["cub_wg"] + "[")]
            if len(ds) != 1 or ds[0][1] != 1 or len(ws) != 1 or ws[0][1] != 1 or ws[0][0] != wsym:
                if not ds and any(sn.startswith("CALL") for sn, e in mon):
                    # a factor produced by a call the rule does not know may be the determinant
                    wunk.append("term %s contains the unrecognised call results %s" % (Poly({mon: cf}), [sn for sn, e in mon if sn.startswith("CALL")]))
                    continue
                if len(wprob) < 3:
                    wprob.append("term %s of the increment of %s%s has det factors %s and weight factors %s (expected one det and one %s)" % (
                        Poly({mon: cf}), names[0], symex.path_str(p), ds, ws, "cub_wg[k]"))
            for d0, e0 in ds:
                dets.add(d0)
            for s, e in mon:
                m = re.search(r"@(\d+)$", s)
                if m:
                    vers.add(int(m.group(1)))
    for d in sorted(dets):
        n = int(re.match(r"^CALL(\d+):", d).group(1))
        seen_det += 1
        pr = problems_of(n)
        if cub not in evs[n]["loops"]:
            pr = pr + ["the determinant (line %s) is computed outside the cubature loop" % evs[n]["line"]]
        chain_has_jac = any(at_point(evs[x]) is not None for x in memo)
        pprob += ["jac_det: " + x for x in pr]
    has_point_call = False
    for vn in sorted(vers):
        seen_basis += 1
        pprob += ["basis data: " + x for x in problems_of(vn)]
    has_point_call = any(at_point(evs[x]) is True for x in memo)
    if not has_point_call and not pprob:
        ck.incomplete("E7.voxel-point-dependence", "%s: no recognised call evaluated at a reference point feeds the accumulation (helper not modelled?)" % key)
        return
    pprob = sorted(set(pprob))
    ck.ob("E7.voxel-point-dependence", key, not pprob, "; ".join(pprob[:3]) if pprob else "det, gradients and values of the %d accumulated entries derive from calls at cub_pt[k] (%d defining calls checked)" % (len(incs), len(memo)), f.file, f.line,
          sample={"entry": symex.path_str(incs[0][0]), "increment": str(incs[0][1])[:240]})
    if not wprob and (wunk or not seen_det):
        ck.incomplete("E7.voxel-weight-once", "%s: %s" % (key, "; ".join(wunk[:2]) or "no determinant factor recognised"))
        return
    ck.ob("E7.voxel-weight-once", key, not wprob, "; ".join(wprob[:2]) if wprob else "every term carries det(J(cub_pt[k])) * cub_wg[k] once", f.file, f.line)


# -------------------------------------------------------------------------------------------------
# guarded definition / use of per-point locals (Burgers assemblers, jobs, voxel kernels) and clearing of outputs
# -------------------------------------------------------------------------------------------------

BURGERS_FILES = "|".join([F("kernel/assembly/burgers_assembler.hpp"), F("kernel/assembly/burgers_assembly_job.hpp"),
                          F("kernel/assembly/gpdv_assembler.hpp"), F("kernel/assembly/grad_operator_assembler.hpp")])


class _Guards:
    """propositional guards over rendered atoms; const bool locals are resolved through their initialisers"""

    def __init__(self, fn):
        self.fn = fn
        self.inits = {}
        for n in fn.nodes():
            if n.get("k") == "Var" and n.get("init") is not None and "bool" in fn.type(n.get("t")):
                self.inits[n["d"]] = n["init"]

    def formula(self, n, depth=0):
        k = n.get("k")
        if k == "Bool":
            return ("const", bool(n["v"]))
        if k == "Un" and n.get("op") == "!":
            return ("not", self.formula(n["e"], depth))
        if k == "Bin" and n.get("op") in ("&&", "||"):
            return ("and" if n["op"] == "&&" else "or", self.formula(n["lhs"], depth), self.formula(n["rhs"], depth))
        if k == "Ref" and n.get("d") in self.inits and depth < 6:
            return self.formula(self.inits[n["d"]], depth + 1)
        names = sorted({(x.get("n") or "") for x in walk(n) if x.get("k") in ("Ref", "Member")})
        flag = k in ("Ref", "Member")
        return ("atom", featlib.render(n).replace("this->", ""), tuple(names), flag)

    @staticmethod
    def atoms(f, out):
        if f[0] == "atom":
            out[f[1]] = f
        elif f[0] in ("and", "or"):
            _Guards.atoms(f[1], out)
            _Guards.atoms(f[2], out)
        elif f[0] == "not":
            _Guards.atoms(f[1], out)
        return out

    @staticmethod
    def ev(f, env):
        t = f[0]
        if t == "const":
            return f[1]
        if t == "atom":
            return env[f[1]]
        if t == "not":
            return not _Guards.ev(f[1], env)
        a, b = _Guards.ev(f[1], env), _Guards.ev(f[2], env)
        return (a and b) if t == "and" else (a or b)

    @staticmethod
    def conj(fs):
        r = ("const", True)
        for f in fs:
            r = ("and", r, f)
        return r

    @staticmethod
    def implies(gr, gws):
        """(counterexample or None, related_atoms?)  for  gr => OR(gws)"""
        at = {}
        _Guards.atoms(gr, at)
        for g in gws:
            _Guards.atoms(g, at)
        names = sorted(at)
        if len(names) > 14:
            return None, True
        related = False
        comps = [a for a in at.values() if not a[3]]
        for i, a in enumerate(comps):
            for b in comps[i + 1:]:
                if set(a[2]) & set(b[2]):
                    related = True
        for bits in itertools.product((False, True), repeat=len(names)):
            env = dict(zip(names, bits))
            if _Guards.ev(gr, env) and not any(_Guards.ev(g, env) for g in gws):
                return env, related
        return None, related

    @staticmethod
    def show(f):
        t = f[0]
        if t == "const":
            return "true" if f[1] else "false"
        if t == "atom":
            return f[1]
        if t == "not":
            return "!(%s)" % _Guards.show(f[1])
        a, b = _Guards.show(f[1]), _Guards.show(f[2])
        if a == "true":
            return b
        if b == "true":
            return a
        return "(%s %s %s)" % (a, "&&" if t == "and" else "||", b)


def _varkey(n):
    if n.get("k") == "Ref" and n.get("dk") in ("local", "param"):
        return ("l", n.get("d"), n.get("n"))
    if n.get("k") == "Member" and (n.get("b") or {}).get("k") == "This" and n.get("field"):
        return ("m", n.get("n"), n.get("n"))
    return None


def _root_var(n):
    """variable at the root of an lvalue expression v, v[i], v(i,j), v.member ..."""
    while n is not None:
        k = _varkey(n)
        if k is not None:
            return k, n
        if n.get("k") == "Index":
            n = n.get("b")
        elif n.get("k") == "Member":
            n = n.get("b")
        elif n.get("k") == "OpCall" and n.get("op") in ("[]", "()") and n.get("a"):
            n = n["a"][0]
        elif n.get("k") == "Cast":
            n = n.get("e")
        else:
            return None, None
    return None, None


def _switch_arms(n, G):
    """statements of a switch body with the guard under which each runs: the disjunction of the labels since the last
    break (`case v:` is the atom `selector == v`, `default:` the negation of all case atoms), i.e. the if-chain it stands for"""
    sel = n.get("c")
    stmts = n["body"].get("s") or []

    def labels(st):
        vals = []
        while isinstance(st, dict) and st.get("k") in ("Case", "Default"):
            vals.append(None if st["k"] == "Default" else st.get("v"))
            st = st.get("s")
        return vals, st
    all_cases = []
    for st in stmts:
        vals, _ = labels(st)
        all_cases += [v for v in vals if v is not None]

    def atom(v):
        return G.formula({"k": "Bin", "op": "==", "lhs": sel, "rhs": v, "t": None})

    def disj(fs):
        r = ("const", False)
        for f in fs:
            r = ("or", r, f)
        return r
    default_f = ("not", disj([atom(v) for v in all_cases]))
    cur = []
    falls = False
    out = []
    for st in stmts:
        vals, inner = labels(st)
        if vals:
            new = [default_f if v is None else atom(v) for v in vals]
            cur = (cur + new) if falls else new
        if inner is not None:
            out.append((inner, disj(cur) if cur else ("const", False)))
            falls = norm.exits_region(inner) is None
    return out


def collect_defuse(fn):
    """kills / reads of variables with their guards.  -> (kills, reads) lists of dicts
    {var, guard (list of formulas between the region loop and the site), region (id of the loop node or 0), order, line, whole}"""
    G = _Guards(fn)
    kills, reads = [], []
    counter = [0]
    kill_targets = set()
    decl_stack = {}

    def visit(n, stack):
        """stack: list of ('if', formula) / ('loop', node id)"""
        if n is None or not isinstance(n, dict):
            return
        counter[0] += 1
        order = counter[0]
        k = n.get("k")
        if k == "Block":
            # early-exit normal form: after `if(c) return / continue / break;` the rest of the block runs under !c
            for st, guards in norm.guarded_statements(n):
                visit(st, stack + [("if", G.formula(c) if pol else ("not", G.formula(c))) for c, pol in guards])
            return
        if k == "Switch" and isinstance(n.get("body"), dict) and n["body"].get("k") == "Block":
            visit(n.get("c"), stack)
            for st, f in _switch_arms(n, G):
                visit(st, stack + [("if", f)])
            return
        if k == "If":
            visit(n.get("init"), stack)
            visit(n.get("c"), stack)
            f = G.formula(n["c"])
            visit(n.get("then"), stack + [("if", f)])
            if n.get("else") is not None:
                visit(n["else"], stack + [("if", ("not", f))])
            return
        if k in ("For", "While", "Do", "ForRange"):
            visit(n.get("init"), stack)
            st2 = stack + [("loop", n.get("i"))]
            for key in ("c", "inc", "var", "range", "body"):
                visit(n.get(key), st2)
            return
        if k == "Bin" and n.get("op") in ("&&", "||"):
            # short-circuit evaluation guards the right operand
            f = G.formula(n["lhs"])
            visit(n["lhs"], stack)
            visit(n["rhs"], stack + [("if", f if n["op"] == "&&" else ("not", f))])
            return
        if k == "Cond":
            f = G.formula(n["c"])
            visit(n["c"], stack)
            visit(n.get("then"), stack + [("if", f)])
            visit(n.get("else"), stack + [("if", ("not", f))])
            return
        if k == "Var":
            decl_stack[n.get("d")] = list(stack)
        if k == "Var" and n.get("init") is not None and not n.get("ref"):
            # a declaration with initialiser defines the variable
            kills.append({"var": ("l", n.get("d"), n.get("n")), "stack": list(stack), "order": order, "line": n.get("l"), "whole": True})
        # kill sites
        tgt = None
        whole = False
        if k == "MCall" and n.get("n") == "format":
            tgt, node = _root_var(n.get("obj"))
            whole = tgt is not None and _varkey(n.get("obj")) is not None
        elif k == "Assign" and n.get("op") == "=":
            tgt, node = _root_var(n.get("lhs"))
            whole = True
        elif k == "OpCall" and n.get("op") == "=" and n.get("a"):
            tgt, node = _root_var(n["a"][0])
            whole = True
        if tgt is not None:
            kill_targets.add(id(node))
            kills.append({"var": tgt, "stack": list(stack), "order": order, "line": n.get("l"), "whole": whole})
        vk = _varkey(n)
        if vk is not None and id(n) not in kill_targets:
            reads.append({"var": vk, "stack": list(stack), "order": order, "line": n.get("l")})
        if k in ("Call", "MCall") and n.get("cdecl") is not None and (k == "Call" or n.get("obj") is None or (n.get("obj") or {}).get("k") == "This"):
            calls.append({"cdecl": n.get("cdecl"), "stack": list(stack), "line": n.get("l")})
        for c in featlib.children(n):
            visit(c, stack)

    calls = []
    visit(fn.body, [])
    G.calls = calls

    def region_of_kill(stack):
        """skip inner loops up to the first if; collect ifs; stop at the next loop"""
        i = len(stack) - 1
        while i >= 0 and stack[i][0] == "loop":
            i -= 1
        guard = []
        while i >= 0 and stack[i][0] == "if":
            guard.insert(0, stack[i][1])
            i -= 1
        # ifs further out but inside the same loop nest level are part of the guard as well
        region = 0
        j = i
        while j >= 0:
            if stack[j][0] == "loop":
                region = stack[j][1]
                break
            j -= 1
        # ifs between region loop and position i (there can be interleaved loops): collect all ifs after the region loop
        guard = [s[1] for s in stack[(j + 1 if j >= 0 else 0):] if s[0] == "if"]
        return region, guard, (j + 1 if j >= 0 else 0)

    for kl in kills:
        kl["region"], kl["guard"], kl["depth"] = region_of_kill(kl["stack"])
    G.decl_stack = decl_stack
    return kills, reads, G


WRITER_METHODS = ("prepare", "prepare_point")     # executed once per cell / per cubature point before the assemble methods


def check_guarded_defuse(ck, facts_list_named, tier):
    """facts_list_named: [(label, facts, function filter)]"""
    for label, facts, want in facts_list_named:
        # cross-method: member kills in prepare_point
        member_kills = {}
        fns = [f for f in facts.functions if f.tk != "pattern" and want(f)]
        seen_fn = set()
        analysed = []
        for f in sorted(fns, key=lambda f: f.full):
            sig = (symex.strip_targs(f.cls), f.name, len(f.params))
            if sig in seen_fn:
                continue
            seen_fn.add(sig)
            kills, reads, G = collect_defuse(f)
            analysed.append((f, kills, reads, G))
        sig_of = lambda f: (symex.strip_targs(f.cls), f.name, len(f.params))
        by_sig = {sig_of(e[0]): e for e in analysed}
        decl_sig = {f.d.get("decl"): sig_of(f) for f in fns if f.d.get("decl") is not None}

        def callee_entry(call):
            return by_sig.get(decl_sig.get(call["cdecl"]))

        def kills_through(entry, prefix, depth, origin):
            """member kills of a per-cell / per-point method including those of the helpers it calls (call-site guards prepended)"""
            f, kills, reads, G = entry
            for kl in kills:
                if kl["var"][0] == "m":
                    member_kills.setdefault(kl["var"][1], []).append((origin, kl, prefix + [s[1] for s in kl["stack"] if s[0] == "if"]))
            if depth < 2:
                for c in G.calls:
                    e2 = callee_entry(c)
                    if e2 is not None and e2[0] is not f and e2[0].name not in WRITER_METHODS:
                        kills_through(e2, prefix + [s[1] for s in c["stack"] if s[0] == "if"], depth + 1, origin)
        helper_of_writer = set()
        for entry in analysed:
            if entry[0].name in WRITER_METHODS:
                kills_through(entry, [], 0, entry[0])
                for c in entry[3].calls:
                    e2 = callee_entry(c)
                    if e2 is not None:
                        helper_of_writer.add(sig_of(e2[0]))
        # call sites of every analysed function inside the analysed set (the context a private helper runs in)
        callers = {}
        for entry in analysed:
            for c in entry[3].calls:
                e2 = callee_entry(c)
                if e2 is not None and e2[0] is not entry[0]:
                    callers.setdefault(sig_of(e2[0]), []).append((entry, [s[1] for s in c["stack"] if s[0] == "if"]))

        def context(fsig, depth=0):
            """disjunction over the known call sites of (guards at the call site AND context of the caller); None: no known caller"""
            cs = callers.get(fsig)
            if not cs or depth > 2:
                return None
            r = ("const", False)
            for (entry, ifs) in cs:
                g = _Guards.conj(ifs)
                up = context(sig_of(entry[0]), depth + 1)
                if up is not None:
                    g = ("and", up, g)
                r = ("or", r, g)
            return r
        for f, kills, reads, G in analysed:
            short = "%s::%s" % (symex.strip_targs(f.cls).rsplit("::", 1)[-1] if f.cls else symex.strip_targs(f.qn).rsplit("::", 2)[-2], f.name) if f.cls else f.name
            byvar = {}
            for kl in kills:
                byvar.setdefault(kl["var"], []).append(kl)
            for var, kls in sorted(byvar.items(), key=lambda kv: str(kv[0])):
                cond = [kl for kl in kls if kl["guard"]]
                if not cond:
                    continue
                regions = sorted({kl["region"] for kl in cond})
                for reg in regions:
                    rk = [kl for kl in kls if kl["region"] == reg]
                    if not any(kl["guard"] for kl in rk):
                        continue
                    if var[0] == "l":
                        ds = G.decl_stack.get(var[1])
                        # block-scoped temporaries declared inside the region / under a guard are defined where they are declared
                        if ds is not None and ((reg != 0 and ("loop", reg) in ds) or (reg == 0 and any(x[0] == "if" for x in ds))):
                            continue
                    depth = rk[0]["depth"]
                    problems, unknown = [], []
                    nreads = 0
                    for rd in reads:
                        if rd["var"] != var:
                            continue
                        # inside the same region?
                        st = rd["stack"]
                        if reg != 0 and ("loop", reg) not in st:
                            continue
                        pos = (st.index(("loop", reg)) + 1) if reg != 0 else 0
                        before = [kl for kl in rk if kl["order"] < rd["order"]]
                        if not before:
                            continue
                        nreads += 1
                        gr = _Guards.conj([s[1] for s in st[pos:] if s[0] == "if"])
                        gws = [_Guards.conj(kl["guard"]) for kl in before]
                        cex, related = _Guards.implies(gr, gws)
                        if cex is not None:
                            msg = "%s is read at line %s under %s but (re)computed only under %s: for %s it holds a stale value" % (
                                var[2], rd["line"], _Guards.show(gr), " || ".join(_Guards.show(g) for g in gws),
                                ", ".join("%s=%s" % (k, "true" if v else "false") for k, v in sorted(cex.items())))
                            (unknown if related else problems).append(msg)
                    if nreads:
                        _finish(ck, "E7.guarded-def-use", "%s/%s/%s" % (label, short, var[2]), problems, unknown,
                                "%d reads are dominated by a (re)computation under an implied guard" % nreads, f.file, rk[0]["line"])
            # cross-method reads of task members that prepare(cell) / prepare_point() (re)compute: every (re)computation is
            # conditional => the read guard has to imply one of them, otherwise the value of the previous cell / point survives
            if f.name not in WRITER_METHODS and sig_of(f) not in helper_of_writer and member_kills:
                agg = {}
                ctx = context(sig_of(f))
                for rd in reads:
                    if rd["var"][0] != "m" or rd["var"][1] not in member_kills:
                        continue
                    mk = member_kills[rd["var"][1]]
                    if any(not g for (_, _, g) in mk):
                        continue     # unconditionally recomputed
                    writers = "+".join(sorted({w.name for (w, _, _) in mk}))
                    key = "%s/%s/%s<-%s" % (label, short, rd["var"][2], writers)
                    a = agg.setdefault(key, {"problems": [], "unknown": [], "n": 0, "line": rd["line"]})
                    a["n"] += 1
                    gr = _Guards.conj([s[1] for s in rd["stack"] if s[0] == "if"])
                    gws = [_Guards.conj(g) for (_, _, g) in mk]
                    cex, related = _Guards.implies(gr, gws)
                    if cex is not None and ctx is not None:
                        # an extracted helper: the guard is established at its call sites
                        cex2, related2 = _Guards.implies(("and", ctx, gr), gws)
                        if cex2 is None:
                            if f.name.startswith("_"):
                                continue
                            a["unknown"].append("member %s is read at line %s in %s(), whose known call sites establish the guard %s; callers outside the analysed class are not visible" % (
                                rd["var"][2], rd["line"], f.name, _Guards.show(ctx)))
                            continue
                    if cex is not None:
                        msg = "member %s is read at line %s under %s but %s() (re)computes it only under %s: for %s it still holds the value of the previous cell/point" % (
                            rd["var"][2], rd["line"], _Guards.show(gr), writers, " || ".join(_Guards.show(g) for g in gws),
                            ", ".join("%s=%s" % (k, "true" if v else "false") for k, v in sorted(cex.items())))
                        a["unknown" if related else "problems"].append(msg)
                for key, a in sorted(agg.items()):
                    _finish(ck, "E7.guarded-def-use", key, a["problems"], a["unknown"],
                            "%d reads: the read guard implies the guard of a (re)computation in the per-cell / per-point method" % a["n"], f.file, a["line"])


def _formats_param(callee, pidx, by_decl, depth=0):
    """the function clears its parameter #pidx with format() on every path to its normal exits (directly, through a reference
    alias, or by handing it to a function that does): True / False / None (not decidable: no body, passed on to an unknown callee)"""
    if callee is None or callee.body is None or callee.cfg is None or pidx >= len(callee.params) or depth > 2:
        return None
    d = callee.params[pidx]["d"]
    env = norm.DefEnv(callee)
    pred, any_clear, escapes = _clear_pred(callee, env, d, by_decl, depth)
    ok, _ = callee.cfg.must_pass(pred)
    if ok:
        return True
    return None if escapes else False


def _clear_pred(f, env, d, by_decl, depth=0):
    """-> (predicate on CFG statements "clears the object of declaration d", list of clearing nodes, escapes?)
    escapes: d is handed by non-const reference to a callee the rule cannot follow (it may clear it)"""
    clearing, escapes = [], []

    def is_d(x):
        a = env.alias(x)
        return a is not None and a.get("k") == "Ref" and a.get("d") == d

    verdict = {}
    for n in f.nodes():
        if n.get("k") == "MCall" and n.get("n") == "format" and n.get("obj") is not None and is_d(n["obj"]):
            verdict[n.get("i")] = True
            clearing.append(n)
            continue
        if featlib.is_call(n) and n.get("k") in ("Call", "MCall", "OpCall"):
            args = list(n.get("a") or [])
            off = 0
            tgt = by_decl.get(n.get("cdecl")) if by_decl else None
            if n.get("k") == "OpCall" and len(n.get("pt") or n.get("pn") or []) == len(args) - 1:
                off = 1      # member operator: the first operand is the receiver (a method other than format() does not clear)
            for pos, a in enumerate(args):
                if pos < off or not is_d(a):
                    continue
                pts = n.get("pt") or []
                ty = f.type(pts[pos - off]) if 0 <= pos - off < len(pts) else ""
                mutable = ty.rstrip().endswith("&") and not ty.lstrip().startswith("const ")
                if not mutable:
                    continue
                r = _formats_param(tgt, pos - off, by_decl, depth + 1) if tgt is not None else None
                if r:
                    verdict[n.get("i")] = True
                    clearing.append(n)
                elif r is None and "ScatterAxpy" not in (n.get("callee") or "") and "GatherAxpy" not in (n.get("callee") or ""):
                    escapes.append(n)
    return (lambda st: verdict.get(st.get("i")) is True), clearing, escapes


def check_outputs_cleared(ck, facts, tier):
    """E7.output-cleared"""
    # documentation: these entry points ASSEMBLE (overwrite) their outputs; the generic operator/functional assemblers ADD (alpha-scaled)
    MUST_CLEAR = {"FEAT::Assembly::GradPresDivVeloAssembler::assemble": ("kernel/assembly/gpdv_assembler.hpp", "Assembles the B and D matrices"),
                  "FEAT::Assembly::GradOperatorAssembler::assemble": ("kernel/assembly/grad_operator_assembler.hpp", "Assembles")}
    by_decl = {f.d.get("decl"): f for f in facts.functions if f.tk != "pattern" and f.body is not None and f.d.get("decl") is not None}
    seen = set()
    for f in sorted(facts.functions, key=lambda f: f.full):
        if f.tk == "pattern" or f.cfg is None or "/kernel/assembly/" not in f.file:
            continue
        env = norm.DefEnv(f)
        scat = []
        for n in f.nodes():
            ini = norm.strip(n.get("init")) if n.get("k") == "Var" else None
            if ini is not None and ini.get("k") in ("Construct", "TempObj") and "ScatterAxpy::ScatterAxpy" in (ini.get("callee") or ""):
                a = ini.get("a", [])
                a0 = env.alias(a[0]) if len(a) == 1 else None
                if a0 is not None and a0.get("k") == "Ref" and a0.get("dk") == "param":
                    scat.append((a0["d"], a0["n"], ini))
        if not scat:
            continue
        qn = symex.strip_targs(f.qn)
        key0 = "%s/%d" % (qn.replace("FEAT::Assembly::", ""), len(f.params))
        if key0 in seen:
            continue
        seen.add(key0)
        status = {}
        for d, name, ctor in scat:
            pred, fmts, escapes = _clear_pred(f, env, d, by_decl)
            wb = f.cfg.block_of(ctor.get("i"))
            if wb is None:
                # the constructor expression itself is not a CFG element: use the enclosing declaration's first element
                status[name] = ("?", fmts, "ScatterAxpy construction not found in the CFG")
                continue
            ok, bad = f.cfg.must_pass(pred, target_blocks=[wb[0]])
            if not ok and escapes:
                status[name] = ("?", fmts, "%s is handed to %s (line %s), which the rule cannot follow and which may clear it" % (
                    name, (escapes[0].get("callee") or "?").rsplit("::", 1)[-1], escapes[0].get("l")))
                continue
            status[name] = ("all" if ok else ("some" if fmts else "none"), fmts, "")
        for name, (st, fmts, why) in sorted(status.items()):
            key = "%s/%s" % (key0, name)
            if st == "?":
                ck.incomplete("E7.output-cleared", "%s: %s" % (key, why))
                continue
            others = {s2 for n2, (s2, _, _) in status.items() if n2 != name}
            doc = MUST_CLEAR.get(qn)
            problems = []
            if st == "some":
                problems.append("%s is cleared (line %s) on some paths to the scatter loop only: on the other paths the cell loop adds onto stale values" % (name, fmts[0].get("l")))
            if st != "all" and "all" in others:
                problems.append("%s is not cleared on every path although the sibling output of the same function is" % name)
            if st == "none" and doc is not None:
                problems.append("%s is never cleared although the function is documented to assemble (not to add onto) its outputs" % name)
            ck.ob("E7.output-cleared", key, not problems, "; ".join(sorted(set(problems))) if problems else ("cleared by format() on every path to the scatter loop" if st == "all" else "accumulating assembler: no output of this function is cleared (alpha-scaled add)"), f.file, f.line)


# -------------------------------------------------------------------------------------------------
# element index kind of the domain assembler's element list (local position vs mesh element)
# -------------------------------------------------------------------------------------------------

ELEM_FIELD = "_element_indices"
ELEM_QUERY = ("size", "empty", "clear", "reserve", "resize", "capacity", "begin", "end", "cbegin", "cend", "shrink_to_fit")


def _is_elem_member(n):
    return n is not None and n.get("k") == "Member" and n.get("n") == ELEM_FIELD and (n.get("b") or {}).get("k") == "This"


def check_element_index_kind(ck, tier):
    """E2.element-index-kind.  Every spelling of "store into the element list" is a sink (subscript / at() / push_back /
    insert / assign / std::iota / std::fill / std::copy / std::transform / range-for by reference / `*it = v` / whole
    assignment / swap, on the member or on a reference alias of it); the stored values are judged through one taint
    relation "is a value of the OLD list" that follows copies made by the same spellings (lib/norm_c16)."""
    try:
        facts = featlib.extract("tu/c17_domain_assembler.cpp", files=F("kernel/assembly/domain_assembler.hpp"))
    except (featlib.AnalysisBroken, OSError) as e:
        ck.incomplete("E2.element-index-kind", "driver tu/c17_domain_assembler.cpp: %s" % e)
        return
    ck.tu(facts)
    seen = set()
    for f in sorted(facts.functions, key=lambda f: f.full):
        if f.tk == "pattern" or not f.cls.startswith("FEAT::Assembly::DomainAssembler<") or "::Worker" in f.cls or (f.name, len(f.params)) in seen:
            continue
        nodes = list(f.nodes())
        if not any(_is_elem_member(n) for n in nodes):
            continue
        seen.add((f.name, len(f.params)))
        env = norm.DefEnv(f)

        def is_E(n):
            """the element list itself (member, or a reference local bound to it)"""
            return _is_elem_member(env.alias(n))

        # --- taint: containers / scalars that hold values of the OLD element list ------------------------------------
        cont, scal = set(), set()      # decl ids

        def strip(n):
            n = norm.strip(n)
            while n is not None and n.get("k") in ("Construct", "TempObj") and len(n.get("a", [])) == 1 and "vector" in (n.get("callee") or ""):
                n = norm.strip(n["a"][0])
            return n

        def is_container(n):
            """expression denotes the old element list or a (copy / translated) container of its values"""
            n = strip(n)
            if n is None:
                return False
            if is_E(n):
                return True
            a = env.alias(n)
            if a is not None and a.get("k") == "Ref" and a.get("d") in cont:
                return True
            if n.get("k") in ("Construct", "TempObj") and len(n.get("a", [])) == 2 and "vector" in (n.get("callee") or ""):
                s0 = norm.iter_source(n["a"][0], env)      # vector(first, last)
                return s0 is not None and is_container(s0)
            return False

        def is_elem_value(n, depth=0):
            """expression is a value taken from the old element list (mesh element number)"""
            n = strip(n)
            if n is None or depth > 8:
                return False
            X = norm.elem_access(n, env)
            if X is not None and is_container(X):
                return True
            if n.get("k") == "Ref" and n.get("d") in scal:
                return True
            if n.get("k") == "Ref" and n.get("d") in env.refs:
                return is_elem_value(env.refs[n["d"]], depth + 1)
            if n.get("k") == "Cond":
                return is_elem_value(n.get("then"), depth + 1) and is_elem_value(n.get("else"), depth + 1)
            return False

        def root_decl(n):
            a = env.alias(n)
            return a.get("d") if a is not None and a.get("k") == "Ref" and a.get("dk") in ("local", "param") else None

        # local containers whose content the rule cannot account for: handed to a callee by non-const reference, or written by
        # an algorithm with an unmodelled source; values read from them are "unknown", never "definitely not from the old list"
        opaque = set()
        for n in nodes:
            if featlib.is_call(n) and n.get("k") in ("Call", "MCall", "OpCall", "Construct", "TempObj") and \
                    strip_targs(n.get("callee") or "") not in ("std::move", "std::forward", "std::as_const", "std::addressof", "std::swap"):
                args = n.get("a") or []
                pts = n.get("pt") or []
                off = 1 if (n.get("k") == "OpCall" and len(pts) == len(args) - 1) else 0
                for pos, a in enumerate(args):
                    if pos < off or pos - off >= len(pts):
                        continue
                    ty = f.type(pts[pos - off])
                    if ty.rstrip().endswith("&") and not ty.lstrip().startswith("const ") and not ty.rstrip().endswith("&&"):
                        r0 = env.alias(a)
                        if r0 is not None and r0.get("k") == "Ref" and r0.get("dk") == "local":
                            opaque.add(r0.get("d"))
            for e in norm.container_effects(n, env):
                if e["src"][0] == "unknown" or (e["src"][0] == "transform" and not (norm.lambda_returns(norm.strip(e["src"][2]))[0])):
                    r0 = env.alias(e["dst"])
                    if r0 is not None and r0.get("k") == "Ref":
                        opaque.add(r0.get("d"))

        def is_opaque(X):
            a = env.alias(X) if X is not None else None
            return a is not None and a.get("k") == "Ref" and a.get("d") in opaque

        def value_verdict(x):
            """True: a value of the old list; False: definitely something else (a plain read of another array / a counter /
            a literal); None: produced by an expression the rule does not understand (a callee could translate)"""
            if is_elem_value(x):
                return True
            s0 = strip(x)
            X = norm.elem_access(s0, env) if s0 is not None else None
            if X is not None and is_opaque(X):
                return None
            if s0 is not None and (s0.get("k") in ("Index", "Ref", "Int") or (s0.get("k") in ("OpCall", "MCall") and s0.get("op", s0.get("n")) in ("[]", "at"))):
                return False
            if X is not None and (env.alias(X) or {}).get("k") in ("Ref", "Member", "MCall", "Call"):
                return False       # `*it` / `it[k]`: a plain read of another array
            return None

        def src_ok(src):
            """True / False (definitely not) / None (not decidable): the stored values are values of the old list"""
            kind = src[0]
            if kind == "value":
                return value_verdict(src[1])
            if kind == "range":
                if src[1] is None:
                    return None
                if is_container(src[1]):
                    return True
                if is_opaque(src[1]):
                    return None
                return False if (env.alias(src[1]) or {}).get("k") in ("Ref", "Member") else None
            if kind == "permute":
                return True
            if kind == "counter":
                return False
            if kind == "transform":
                rets, _ = norm.lambda_returns(norm.strip(src[2]))
                if not rets:
                    return None
                vs = [value_verdict(r) for r in rets]
                return True if all(v is True for v in vs) else (False if any(v is False for v in vs) else None)
            return None

        # reference variables of range-for loops denote one element of the range
        range_var = {}
        for n in nodes:
            if n.get("k") == "ForRange":
                v = n.get("var") or {}
                vt = f.type(v.get("t")) if v.get("t") is not None else ""
                if (v.get("ref") or vt.rstrip().endswith("&")) and "const" not in vt and v.get("d") is not None:
                    range_var[v["d"]] = n.get("range")

        def stores(n):
            """[(destination container expr, 'element' | 'whole', src)] of node n"""
            k = n.get("k")
            out = []
            if k == "Assign" and n.get("op") == "=":
                X = norm.elem_access(n.get("lhs"), env)
                l0 = norm.strip(n.get("lhs")) or {}
                if X is None and l0.get("k") == "Ref" and l0.get("d") in range_var:
                    X = env.alias(range_var[l0["d"]])
                if X is not None:
                    out.append((X, "element", ("value", n.get("rhs"))))
                else:
                    out.append((env.alias(n.get("lhs")), "scalar", ("value", n.get("rhs"))))
            elif k == "OpCall" and n.get("op") == "=" and len(n.get("a", [])) == 2:
                X = norm.elem_access(n["a"][0], env)
                if X is not None:
                    out.append((X, "element", ("value", n["a"][1])))
                else:
                    out.append((env.alias(n["a"][0]), "whole", ("range", strip(n["a"][1]))))
            for e in norm.container_effects(n, env):
                out.append((e["dst"], "whole" if e["mode"] == "whole" else "element", e["src"]))
            return out
        changed = True
        rounds = 0
        while changed and rounds < 8:
            changed = False
            rounds += 1
            for n in nodes:
                k = n.get("k")
                if k == "Var" and n.get("init") is not None and not (n.get("ref") or f.type(n.get("t")).rstrip().endswith("&")):
                    if is_container(n["init"]) and n["d"] not in cont:
                        cont.add(n["d"]); changed = True
                    elif is_elem_value(n["init"]) and n["d"] not in scal:
                        scal.add(n["d"]); changed = True
                if k == "ForRange" and is_container(n.get("range")) and (n.get("var") or {}).get("d") is not None and n["var"]["d"] not in scal:
                    scal.add(n["var"]["d"]); changed = True
                for dst, kind, src in stores(n):
                    r = root_decl(dst)
                    if r is None:
                        continue
                    ok = src_ok(src)
                    if kind in ("element", "whole") and ok and r not in cont and src[0] != "permute":
                        cont.add(r); changed = True
                    elif kind == "scalar" and ok and r not in scal:
                        scal.add(r); changed = True
        # --- does the function reorder (read the old content)? ------------------------------------------------------
        store_dst = set()
        for n in nodes:
            if n.get("k") == "Assign" and n.get("op") == "=":
                store_dst.add(id(norm.strip(n.get("lhs"))))
            if n.get("k") == "OpCall" and n.get("op") == "=" and n.get("a"):
                store_dst.add(id(norm.strip(n["a"][0])))
        reads_old = False
        for n in nodes:
            if id(n) in store_dst:
                continue
            X = norm.elem_access(n, env)
            if X is not None and is_E(X):
                reads_old = True
            if n.get("k") in ("Construct", "TempObj") and "vector" in (n.get("callee") or "") and n.get("a"):
                a0 = n["a"][0]
                if (len(n["a"]) == 1 and is_E(strip(a0))) or (len(n["a"]) == 2 and norm.iter_source(a0, env) is not None and is_E(norm.iter_source(a0, env))):
                    reads_old = True
            if n.get("k") == "ForRange" and is_E(n.get("range")):
                v = n.get("var") or {}
                vt = f.type(v.get("t")) if v.get("t") is not None else ""
                if not ((v.get("ref") or vt.rstrip().endswith("&")) and "const" not in vt):
                    reads_old = True
            for e in norm.container_effects(n, env):
                if e["src"][0] in ("range", "transform") and e["src"][1] is not None and is_E(e["src"][1]) and not is_E(e["dst"]):
                    reads_old = True
        # --- sinks ---------------------------------------------------------------------------------------------------
        sinks = []
        for n in nodes:
            for dst, kind, src in stores(n):
                if kind != "scalar" and dst is not None and is_E(dst) and src[0] != "permute":
                    sinks.append((n, src, kind))
        if not sinks:
            continue
        key = "DomainAssembler::%s" % f.name
        # an initial fill states its belief: XASSERT(_element_indices.empty()) (the mesh element numbers are then enumerated directly)
        asserts_empty = any(n.get("k") == "Call" and (n.get("callee") or "") == "FEAT::assertion" and
                            any(x.get("k") == "MCall" and x.get("n") == "empty" and is_E(x.get("obj")) for x in walk(n)) for n in nodes)
        if asserts_empty and not reads_old:
            ck.ob("E2.element-index-kind", key, True, "initial fill of the element list (asserted empty on entry, %d stores)" % len(sinks), f.file, f.line, trivial=True)
            continue
        problems, unknown = [], []
        for n, src, kind in sinks:
            ok = src_ok(src)
            if ok:
                continue
            shown = src[1] if src[0] in ("value", "counter") else n
            msg = "line %s stores %s into the element list: %s that is not taken from the previous element list (local position instead of mesh element number)" % (
                n.get("l"), featlib.render(shown)[:80], {"value": "a value", "counter": "consecutive counter values (std::iota)", "range": "the elements of a container", "transform": "transformed values"}.get(src[0], "values"))
            definite = ok is False
            (problems if definite else unknown).append(msg)
        _finish(ck, "E2.element-index-kind", key, problems, unknown, "%d stores into the reordered element list take their values from the previous list (position -> mesh element translation kept)" % len(sinks), f.file, f.line)


# -------------------------------------------------------------------------------------------------
# sibling routes gate each term with the same predicate of the same coefficients; wrappers forward every parameter
# -------------------------------------------------------------------------------------------------

def check_gating_agreement(ck, facts_list):
    rule = "E7.term-gating-agreement"
    groups = {}     # coefficient set -> [(route key, flag name, predicate text, fn, line)]
    dup_seen = set()
    for facts in facts_list:
        seen = set()
        for f in sorted(facts.functions, key=lambda f: f.full):
            if f.tk == "pattern" or f.body is None:
                continue
            if not (("burgers_assembler.hpp" in f.file or "burgers_assembly_job.hpp" in f.file or "/voxel_assembly/arch/burgers_assembler.cpp" in f.file)):
                continue
            route = strip_targs(f.qn).replace("FEAT::Assembly::", "").replace("FEAT::VoxelAssembly::Kernel::", "voxel/")
            if route in seen:
                continue
            G = _RGuards(f)
            defs = []
            for n in f.nodes():
                if n.get("k") == "Var" and n.get("init") is not None and "bool" in f.type(n.get("t")):
                    defs.append((n.get("n"), n["init"], n.get("l")))
            minit = {}
            for ini in f.d.get("inits") or []:
                if ini.get("member") and ini.get("init") is not None:
                    minit[str(ini["member"])] = ini["init"]
            for nm, init in minit.items():
                defs.append((nm, init, f.line))
            got = False

            def pred_norm(n, depth=0):
                """predicate text in normal form: const locals resolved, `a < b` written `b > a`, conjunctions / disjunctions sorted"""
                n = unwrap_init(n)
                while isinstance(n, dict) and n.get("k") in ("Cast", "Paren") and n.get("e") is not None:
                    n = n["e"]
                if not isinstance(n, dict):
                    return "?"
                if n.get("k") == "Ref" and n.get("d") in G.all_inits and depth < 8:
                    return pred_norm(G.all_inits[n["d"]], depth + 1)
                if n.get("k") == "Bin" and n.get("op") in ("&&", "||"):
                    parts = []
                    for side in (n["lhs"], n["rhs"]):
                        t = pred_norm(side, depth + 1)
                        parts += t[1:-1].split(" %s " % n["op"]) if (t.startswith("(") and (" %s " % n["op"]) in t and side.get("k") == "Bin" and side.get("op") == n["op"]) else [t]
                    return "(" + (" %s " % n["op"]).join(sorted(parts)) + ")"
                if n.get("k") == "Bin" and n.get("op") in ("<", "<=", ">", ">=", "==", "!="):
                    l, r, op = G.resolve(n["lhs"]), G.resolve(n["rhs"]), n["op"]
                    if op in ("<", "<="):
                        l, r, op = r, l, {"<": ">", "<=": ">="}[op]
                    elif op in ("==", "!=") and r < l:
                        l, r = r, l
                    return "(%s %s %s)" % (l, op, r)
                if n.get("k") == "Un" and n.get("op") == "!":
                    return "!" + pred_norm(n.get("e"), depth + 1)
                return G.resolve(n)
            # an if / else-if chain whose conditions resolve to the same predicate has a dead branch (a sub-flag defined with
            # the wrong mode literal: `need_diff_defo = need_diff && !deformation`)
            for n in f.nodes():
                if n.get("k") == "If" and n.get("c") is not None:
                    chain, x = [], n
                    while isinstance(x, dict) and x.get("k") == "If" and x.get("c") is not None:
                        chain.append((pred_norm(x["c"]), x.get("l")))
                        x = x.get("else")
                        while isinstance(x, dict) and x.get("k") == "Block" and len(x.get("s") or []) == 1:
                            x = x["s"][0]
                    texts = [t for t, _ in chain]
                    for t, l in chain[1:]:
                        if texts.count(t) > 1 and re.search(r"[<>]", t) and (route, t) not in dup_seen:
                            dup_seen.add((route, t))
                            ck.ob(rule, "%s/else-if:%s" % (route, t[:60]), False, "the if / else-if chain ending at line %s tests the same predicate %s twice: the later branch can never be taken (both conditions resolve to the same definition)" % (l, t), f.file, l)
            for nm, init, line in defs:
                txt = pred_norm(init)
                if not re.search(r"[<>]", txt):
                    continue
                # mode switches (bare bool operands of a conjunction: `need_diff && !deformation`) qualify a coefficient predicate,
                # they are not part of it: the coefficient predicate is compared across the routes
                if txt.startswith("(") and " && " in txt and " || " not in txt:
                    parts = [q for q in txt[1:-1].split(" && ") if re.search(r"[<>]|==|!=", q)]
                    if parts:
                        txt = parts[0] if len(parts) == 1 else "(" + " && ".join(parts) + ")"
                # members initialised by the same constructor (tol_eps) are replaced by their initialiser, one level
                for m2, i2 in minit.items():
                    if m2 != nm and re.search(r"(?<![\w.])%s(?![\w(])" % re.escape(m2), txt):
                        t2 = pred_norm(i2)
                        if not re.search(r"[<>]", t2):
                            txt = re.sub(r"(?<![\w.])%s(?![\w(])" % re.escape(m2), t2, txt)
                txt = re.sub(r"\b\w+\.(?=[A-Za-z_])", "", txt)        # parameter-struct prefixes (burgers_params.beta)
                coeffs = tuple(sorted(set(re.findall(r"[A-Za-z_]\w*(?![\w(])", txt))))
                if not coeffs:
                    continue
                groups.setdefault(coeffs, []).append((route, nm, txt, f, line))
                got = True
            if got:
                seen.add(route)
    for coeffs, items in sorted(groups.items()):
        # one predicate per (route, text); flags derived from flags resolve to the same text
        per_route = {}
        for route, nm, txt, f, line in items:
            per_route.setdefault(route, {}).setdefault(txt, (nm, f, line))
        counts = {}
        for route, texts in per_route.items():
            for txt in texts:
                counts[txt] = counts.get(txt, 0) + 1
        best = max(counts.values())
        major = sorted(t for t, c in counts.items() if c == best)
        for route, texts in sorted(per_route.items()):
            for txt, (nm, f, line) in sorted(texts.items()):
                key = "%s/%s" % (route, ",".join(coeffs))
                if len(per_route) == 1:
                    ck.ob(rule, key, True, "%s = %s (no sibling route gates a term on these coefficients)" % (nm, txt), f.file, line, trivial=True)
                    continue
                if len(major) > 1 and len(counts) > 1:
                    ck.incomplete(rule, "%s: the routes disagree on the predicate over (%s) without a majority: %s" % (key, ",".join(coeffs), sorted(counts)))
                    continue
                ok = txt == major[0]
                simple = r"^\(?(\(?(abs\()?[\w.]+\)? (>|>=|==|!=) [\w.()]+\)?( && | \|\| )?)+\)?$"
                if not ok and not (re.match(simple, txt) and re.match(simple, major[0])):
                    # differently SHAPED predicates (negations, helper calls) may still be equivalent: not a verdict
                    ck.incomplete(rule, "%s: %s = %s is spelled differently from the sibling routes' %s; equivalence not decided" % (key, nm, txt, major[0]))
                    continue
                ck.ob(rule, key, ok, "%s = %s, but %d of the %d sibling routes gate the same term with %s: for the coefficients on which the two predicates differ this route drops / adds the term" % (
                    nm, txt, best, len(per_route), major[0]) if not ok else "%s = %s, the same predicate in all %d routes" % (nm, txt, len(per_route)), f.file, line)


def check_wrappers(ck, tier):
    rule = "E1.wrapper-forwards"
    try:
        facts = featlib.extract("tu/c16_helpers.cpp", files=F("kernel/assembly/domain_assembler_helpers.hpp"))
    except (featlib.AnalysisBroken, OSError) as e:
        ck.incomplete(rule, "driver tu/c16_helpers.cpp: %s" % e)
        return
    ck.tu(facts)
    for e in facts.errors_outside_repo():
        ck.incomplete(rule, "driver tu/c16_helpers.cpp no longer matches the API: %s:%d %s" % (e["file"], e["line"], e["msg"]))
    for e in facts.errors_in_repo():
        ck.ob(rule, "E0/%s/%s" % (rel(e["file"]), re.sub(r"\d+", "N", e["msg"])[:80]), False, "front-end error %s:%d %s" % (rel(e["file"]), e["line"], e["msg"]), e["file"], e["line"])
    by_decl = {g.d.get("decl"): g for g in facts.functions if g.tk != "pattern" and g.body is not None and g.d.get("decl") is not None}
    seen = set()
    for f in sorted(facts.functions, key=lambda f: f.full):
        if f.tk == "pattern" or f.body is None or f.cls or not f.qn.startswith("FEAT::Assembly::") or f.name in seen or f.name.startswith("_"):
            continue
        seen.add(f.name)
        env = norm.DefEnv(f)
        pds = {p["d"]: p["n"] for p in f.params if p.get("n")}

        def params_in(x, depth=0):
            out = set()
            for y in walk(x or {}):
                if y.get("k") == "Ref" and y.get("d") in pds:
                    out.add(y["d"])
                elif y.get("k") == "Ref" and y.get("dk") == "local" and depth < 6 and env.single_def(y.get("d")) is not None:
                    out |= params_in(env.single_def(y["d"]), depth + 1)
            return out
        forwarded = set()
        slot_problems = {}
        for n in f.nodes():
            if not featlib.is_call(n) or (n.get("callee") or "") == "FEAT::assertion":
                continue
            if any(n is y for a in f.nodes() if featlib.is_call(a) and (a.get("callee") or "") == "FEAT::assertion" for y in walk(a)):
                continue      # a call inside an assertion
            for a in n.get("a") or []:
                forwarded |= params_in(a)
            if n.get("obj") is not None:
                forwarded |= params_in(n["obj"])
            # helper of the wrappers (same header): its own parameters are judged there, the call is a use
            # slot check: a plain parameter argument received under the name of another wrapper parameter
            pn = n.get("pn") or []
            if n.get("k") in ("Construct", "TempObj") and len(pn) == len(n.get("a") or []):
                for a, cp in zip(n["a"], pn):
                    a0 = env.alias(a)
                    if a0 is not None and a0.get("k") == "Ref" and a0.get("d") in pds:
                        mine, theirs = pds[a0["d"]].strip("_"), (cp or "").strip("_")
                        others = {v.strip("_") for d2, v in pds.items() if d2 != a0["d"]}
                        if theirs and theirs != mine and theirs in others:
                            slot_problems[a0["d"]] = "parameter `%s` is handed to the constructor parameter `%s` of %s, which carries the name of another parameter of the wrapper (arguments exchanged)" % (
                                pds[a0["d"]], cp, (n.get("callee") or "?").rsplit("::", 1)[-1])
        asserted = set()
        for n in f.nodes():
            if featlib.is_call(n) and (n.get("callee") or "") == "FEAT::assertion":
                asserted |= params_in(n)
        for p in f.params:
            if not p.get("n"):
                continue
            key = "%s/%s" % (f.name, p["n"])
            problems = []
            if p["d"] not in forwarded:
                problems.append("parameter `%s` does not reach the job / assembler call%s: the job is built without it (its constructor's default or a constant takes its place)" % (
                    p["n"], " (it is only used in an assertion)" if p["d"] in asserted else ""))
            if p["d"] in slot_problems:
                problems.append(slot_problems[p["d"]])
            ck.ob(rule, key, not problems, "; ".join(problems) if problems else "forwarded", f.file, f.line)


# -------------------------------------------------------------------------------------------------
# parameter setters are history free
# -------------------------------------------------------------------------------------------------

SETTER_FILES = "|".join([F("kernel/assembly/burgers_assembler.hpp"), F("kernel/assembly/burgers_assembly_job.hpp"), F("kernel/voxel_assembly/burgers_assembler.hpp")])


def check_setters(ck, tier):
    rule = "E7.setter-history-free"
    try:
        facts = featlib.extract("tu/c16_setters.cpp", files=SETTER_FILES)
    except (featlib.AnalysisBroken, OSError) as e:
        ck.incomplete(rule, "driver tu/c16_setters.cpp: %s" % e)
        return
    ck.tu(facts)
    for e in facts.errors_outside_repo():
        ck.incomplete(rule, "driver tu/c16_setters.cpp no longer matches the API: %s:%d %s" % (e["file"], e["line"], e["msg"]))
    for e in facts.errors_in_repo():
        ck.ob(rule, "E0/%s/%s" % (rel(e["file"]), re.sub(r"\d+", "N", e["msg"])[:80]), False, "front-end error %s:%d %s" % (rel(e["file"]), e["line"], e["msg"]), e["file"], e["line"])
    by_decl = {f.d.get("decl"): f for f in facts.functions if f.tk != "pattern" and f.body is not None and f.d.get("decl") is not None}

    envs = {}

    def member(n, f=None):
        """name of the this-member the expression denotes (reference locals bound to a member resolved)"""
        if f is not None:
            if id(f) not in envs:
                envs[id(f)] = norm.DefEnv(f)
            n = envs[id(f)].alias(n)
        else:
            n = norm.strip(n)
        return n.get("n") if n is not None and n.get("k") == "Member" and (n.get("b") or {}).get("k") == "This" and n.get("field") else None

    memo = {}

    def analyse(f, depth=0):
        """-> (members assigned on every path, [(member, line)] history dependences, unknown, members assigned on some path).
        History dependence = the member's value at ENTRY flows into a stored value (read in a value context before this call
        has assigned it), or decides whether the member is stored at all (a condition on the member guards the store;
        `if(new == m) return;` / `if(m != new) m = new;` are exempt: there the member already holds the value)"""
        mk = f.d.get("decl")
        if mk in memo:
            return memo[mk]
        memo[mk] = (set(), [], [], set())
        early, unknown = [], []
        may = set()

        def reads(x, defined):
            for y in walk(x):
                m = member(y, f)
                if m is not None and m not in defined:
                    early.append((m, y.get("l")))

        def expr(x, defined, value=True):
            """effects of expression x in evaluation order (operands before the store); value: x feeds a stored value / argument"""
            if not isinstance(x, dict):
                return
            k = x.get("k")
            if k == "Assign" or (k == "OpCall" and x.get("op") in _ASSIGN_OPS and len(x.get("a") or []) == 2):
                lhs, rhs = (x.get("lhs"), x.get("rhs")) if k == "Assign" else (x["a"][0], x["a"][1])
                op = x.get("op", "=")
                expr(rhs, defined, True)
                m = member(lhs, f)
                if m is not None:
                    may.add(m)
                    if op != "=":
                        reads(lhs, defined)
                    else:
                        defined.add(m)
                else:
                    expr(lhs, defined, value)
                return
            if k == "Un" and ("++" in str(x.get("op")) or "--" in str(x.get("op"))):
                m = member(x.get("e"), f)
                if m is not None:
                    may.add(m)
                reads(x.get("e"), defined)
                return
            if k in ("Call", "MCall") and x.get("cdecl") in by_decl and (k == "Call" or x.get("obj") is None or (norm.strip(x.get("obj")) or {}).get("k") == "This") and depth < 3:
                tgt = by_decl[x["cdecl"]]
                if tgt.cls == f.cls:
                    for a2 in x.get("a") or []:
                        expr(a2, defined, True)
                    d2, e2, u2, m2 = analyse(tgt, depth + 1)
                    for m, l in e2:
                        if m not in defined:
                            early.append((m, l))
                    unknown.extend(u2)
                    may.update(m2)
                    defined |= d2
                    return
            if k == "Lambda":
                return
            m = member(x, f)
            if m is not None:
                if value and m not in defined:
                    early.append((m, x.get("l")))
                return
            for c in featlib.children(x):
                expr(c, defined, value)

        def equality(c):
            """(member, True if the condition being TRUE means member == other operand) for `m == e` / `m != e`"""
            c = norm.strip(c)
            if c is not None and c.get("k") == "Un" and c.get("op") == "!":
                r = equality(c.get("e"))
                return (r[0], not r[1]) if r else None
            if c is not None and c.get("k") == "Bin" and c.get("op") in ("==", "!="):
                for a2 in (c.get("lhs"), c.get("rhs")):
                    m = member(a2, f)
                    if m is not None:
                        return m, c["op"] == "=="
            return None

        def stmt(st, defined):
            """-> defined set after the statement, or None if the path ends"""
            if not isinstance(st, dict):
                return defined
            k = st.get("k")
            if k == "Block":
                for s2 in st.get("s") or []:
                    defined = stmt(s2, defined)
                    if defined is None:
                        return None
                return defined
            if k == "Decl":
                for v in st.get("vars") or []:
                    if v.get("init") is not None and not ((v.get("ref") or f.type(v.get("t")).rstrip().endswith("&")) and member(v["init"], f)):
                        expr(v["init"], defined, True)
                return defined
            if k == "If":
                expr(st.get("c"), defined, False)
                cm = {member(y, f) for y in walk(st.get("c"))} - {None}
                eq = equality(st.get("c"))
                da, db = set(defined), set(defined)
                if eq is not None:
                    (da if eq[1] else db).add(eq[0])      # on that branch the member already holds the compared value
                a = stmt(st.get("then"), da)
                b = stmt(st.get("else"), db) if st.get("else") is not None else db
                # a condition on the member's entry value that decides whether the member is stored
                for m in cm:
                    if m in defined:
                        continue
                    if a is not None and b is not None:
                        if (m in a) != (m in b):
                            early.append((m, st.get("l")))
                    elif (a is None) != (b is None):
                        # one branch leaves the function: judged at the end (does the leaving path store the member like the others?)
                        pending.append((m, st.get("l")))
                outs = [x for x in (a, b) if x is not None]
                if not outs:
                    return None
                return set.intersection(*outs)
            if k in ("For", "While", "Do", "ForRange"):
                if st.get("init") is not None:
                    defined = stmt(st["init"], defined) if st["init"].get("k") in ("Decl", "Block") else (expr(st["init"], defined, True) or defined)
                inner = set(defined)
                for part in ("c", "range"):
                    expr(st.get(part), inner, False)
                stmt(st.get("body"), inner)
                expr(st.get("inc"), inner, True)
                return defined      # the body may not execute
            if k == "Return":
                expr(st.get("e"), defined, True)
                finals.append(set(defined))
                return None
            if k == "Switch" and isinstance(st.get("body"), dict) and st["body"].get("k") == "Block":
                # every label is an entry of a path from the switch head (fall-through joins), break leaves the switch
                expr(st.get("c"), defined, False)
                entry = set(defined)
                outs = []
                cur = None
                has_default = False
                for s2 in st["body"].get("s") or []:
                    labelled = False
                    while isinstance(s2, dict) and s2.get("k") in ("Case", "Default"):
                        labelled = True
                        has_default = has_default or s2["k"] == "Default"
                        s2 = s2.get("s")
                    if labelled:
                        cur = set(entry) if cur is None else (cur & entry)
                    if cur is None:
                        continue
                    if isinstance(s2, dict) and s2.get("k") == "Break":
                        outs.append(cur)
                        cur = None
                        continue
                    cur = stmt(s2, cur)
                if cur is not None:
                    outs.append(cur)
                if not has_default:
                    outs.append(entry)
                return set.intersection(*outs) if outs else None
            if k in ("Switch", "Try"):
                unknown.append("%s at line %s" % (k, st.get("l")))
                return defined
            if k == "Break" or k == "Continue":
                return defined
            expr(st, defined, True)
            return defined
        finals, pending = [], []
        d = stmt(f.body, set())
        if d is not None:
            finals.append(d)
        always = set.intersection(*finals) if finals else set()
        for m, l in pending:
            if m in may and m not in always:
                early.append((m, l))
        memo[mk] = (always, early, unknown, may)
        return memo[mk]

    seen = set()
    for f in sorted(facts.functions, key=lambda f: f.full):
        if f.tk == "pattern" or f.body is None or not f.name.startswith("set_") or not f.cls or not re.search(r"(BurgersAssembler|BurgersAssemblyJobBase|VoxelBurgersAssembler)<", f.cls):
            continue
        short = strip_targs(f.cls).rsplit("::", 1)[-1]
        argkind = "global" if f.params and "Global::Vector" in f.type(f.params[0]["t"]) else "local"
        always, early, unknown, may = analyse(f)
        stored = set(may) | always
        for m in sorted(stored):
            key = "%s::%s(%s)/%s" % (short, f.name, argkind, m)
            if key in seen:
                continue
            seen.add(key)
            bad = sorted({l for (m2, l) in early if m2 == m}, key=lambda x: x or 0)
            problems = ["%s (as it was on entry) is read at line %s before this call has assigned it and determines what %s() stores (or whether it stores at all): the state depends on the history of calls (a setter overwrites)" % (m, l, f.name) for l in bad[:2]]
            _finish(ck, rule, key, problems, unknown if not problems else [], "%s is assigned from the arguments of the call only" % m, f.file, f.line)


# -------------------------------------------------------------------------------------------------
# producer / consumer gating between the voxel host loops and their kernels
# -------------------------------------------------------------------------------------------------

class _RGuards(_Guards):
    """guards with const / reference locals resolved through their initialisers and parameters substituted by
    the caller's argument expressions (for the interprocedural comparison)"""

    def __init__(self, fn, subst=None, outer=None):
        super().__init__(fn)
        self.all_inits = {}
        for n in fn.nodes():
            if n.get("k") == "Var" and n.get("init") is not None and (n.get("const") or n.get("ref") or "const" in fn.type(n.get("t"))):
                self.all_inits[n["d"]] = n["init"]
        self.subst = subst or {}     # param decl id -> (argument node, guards object of the caller)
        self.outer = outer

    def resolve(self, n, depth=0):
        """expression with locals replaced by initialisers, parameters by caller arguments -> text"""
        k = n.get("k")
        if depth < 8 and k == "Ref":
            if n.get("d") in self.subst:
                a, og = self.subst[n["d"]]
                return og.resolve(a, depth + 1)
            if n.get("d") in self.all_inits:
                return self.resolve(unwrap_init(self.all_inits[n["d"]]), depth + 1)
            return n.get("n")
        if k == "Member":
            b = n.get("b")
            return (self.resolve(b, depth) + "." if b is not None and b.get("k") != "This" else "") + n.get("n")
        if k == "Cast":
            return self.resolve(n.get("e"), depth)
        if k in ("Int", "Float", "Bool"):
            return str(n.get("text") or n.get("v"))
        if k == "Bin":
            return "(%s %s %s)" % (self.resolve(n["lhs"], depth), n["op"], self.resolve(n["rhs"], depth))
        if k == "Un":
            return "(%s%s)" % (n["op"], self.resolve(n["e"], depth))
        if featlib.is_call(n):
            nm = (n.get("callee") or "?").rsplit("::", 1)[-1]
            args = [self.resolve(a, depth) for a in n.get("a", [])]
            if n.get("k") == "MCall" and n.get("obj") is not None:
                args.insert(0, self.resolve(n["obj"], depth))
            return "%s(%s)" % (nm, ",".join(args))
        if k == "InitList" and len(n.get("a", [])) == 1:
            return self.resolve(n["a"][0], depth)
        return featlib.render(n)

    def formula(self, n, depth=0):
        k = n.get("k")
        if k == "Bool":
            return ("const", bool(n["v"]))
        if k == "Un" and n.get("op") == "!":
            return ("not", self.formula(n["e"], depth))
        if k == "Bin" and n.get("op") in ("&&", "||"):
            return ("and" if n["op"] == "&&" else "or", self.formula(n["lhs"], depth), self.formula(n["rhs"], depth))
        if k == "Ref" and depth < 8:
            if n.get("d") in self.subst:
                a, og = self.subst[n["d"]]
                return og.formula(a, depth + 1)
            if n.get("d") in self.all_inits:
                return self.formula(unwrap_init(self.all_inits[n["d"]]), depth + 1)
        if k == "Cast":
            return self.formula(n.get("e"), depth)
        txt = self.resolve(n)
        # data names (dotted paths), not function names: two comparison atoms are related only if they share a datum
        names = tuple(sorted({m.group(1) for m in re.finditer(r"([A-Za-z_]\w*(?:\.[A-Za-z_]\w*)*)(?!\w|\()", txt)}))
        return ("atom", txt, names, k in ("Ref", "Member"))


def unwrap_init(n):
    while n is not None and n.get("k") == "InitList" and len(n.get("a", [])) == 1:
        n = n["a"][0]
    return n


def _guard_walk(fn, G, on_node):
    """calls on_node(node, [guard formulas]) for every node with the if / short-circuit guards enclosing it"""
    def visit(n, stack):
        if n is None or not isinstance(n, dict):
            return
        k = n.get("k")
        if k == "Block":
            on_node(n, stack)
            for st, guards in norm.guarded_statements(n):
                visit(st, stack + [G.formula(c) if pol else ("not", G.formula(c)) for c, pol in guards])
            return
        if k == "Switch" and isinstance(n.get("body"), dict) and n["body"].get("k") == "Block":
            on_node(n, stack)
            visit(n.get("c"), stack)
            for st, f in _switch_arms(n, G):
                visit(st, stack + [f])
            return
        if k == "If":
            visit(n.get("init"), stack)
            visit(n.get("c"), stack)
            f = G.formula(n["c"])
            visit(n.get("then"), stack + [f])
            if n.get("else") is not None:
                visit(n["else"], stack + [("not", f)])
            return
        if k == "Cond":
            f = G.formula(n["c"])
            visit(n["c"], stack)
            visit(n.get("then"), stack + [f])
            visit(n.get("else"), stack + [("not", f)])
            return
        if k == "Bin" and n.get("op") in ("&&", "||"):
            f = G.formula(n["lhs"])
            visit(n["lhs"], stack)
            visit(n["rhs"], stack + [f if n["op"] == "&&" else ("not", f)])
            return
        on_node(n, stack)
        for c in featlib.children(n):
            visit(c, stack)
    visit(fn.body, [])


def check_caller_kernel_gating(ck, facts, label, tier):
    """E7.caller-kernel-gating: a local of the host cell loop that is filled (gathered) under guard G_w and handed to a kernel is
    read by the kernel only under guards that imply G_w after substituting the call's arguments for the kernel's parameters"""
    by_decl = {f.d.get("decl"): f for f in facts.functions if f.tk != "pattern" and f.d.get("decl") is not None}
    seen = set()
    for f in sorted(facts.functions, key=lambda f: f.full):
        if f.tk == "pattern" or not f.name.endswith("_host") or "/voxel_assembly/" not in f.file:
            continue
        if ", double, " not in f.full and "<double" not in f.full and "double," not in f.full:
            pass
        sig = (f.name, len(f.params))
        if sig in seen:
            continue
        G = _RGuards(f)
        calls = []      # (call node, guards)
        prods = {}      # local decl id -> [(guards, line)]
        inits = {}

        def on_node(n, stack):
            if n.get("k") == "Var":
                inits[n["d"]] = n
            if featlib.is_call(n) and n.get("k") in ("Call", "MCall"):
                t = by_decl.get(n.get("cdecl"))
                if t is not None and t.name.endswith("_assembly_kernel"):
                    calls.append((n, list(stack), t))
                    return
                # a call that receives a local by non-const reference (first mutable argument) produces it
                for a, pt in zip(n.get("a", []), n.get("pt", [])):
                    ty = f.type(pt)
                    if a.get("k") == "Ref" and a.get("dk") == "local" and ty.rstrip().endswith("&") and not ty.lstrip().startswith("const "):
                        prods.setdefault(a["d"], []).append((list(stack), n.get("l"), (n.get("callee") or "").rsplit("::", 1)[-1]))
        _guard_walk(f, G, on_node)
        if not calls:
            continue
        seen.add(sig)
        for cn, cstack, kern in calls:
            # map kernel parameters to the caller's arguments
            subst = {}
            for p, a in zip(kern.params, cn.get("a", [])):
                subst[p["d"]] = (a, G)
            KG = _RGuards(kern, subst=subst)
            for p, a in zip(kern.params, cn.get("a", [])):
                if a.get("k") != "Ref" or a.get("dk") != "local" or a["d"] not in prods:
                    continue
                pw = prods[a["d"]]
                if any(not st for st, _, _ in pw):
                    continue          # produced unconditionally
                # the kernel call itself must not be counted as a producer of its input
                kt = kern.type(p["t"])
                if not kt.lstrip().startswith("const "):
                    continue
                gws = [_Guards.conj(st) for st, _, _ in pw]
                reads = {}

                def on_k(n, stack, pd=p["d"]):
                    if n.get("k") == "Ref" and n.get("d") == pd:
                        g = _Guards.conj(stack)
                        reads.setdefault(_Guards.show(g), (g, n.get("l")))
                _guard_walk(kern, KG, on_k)
                if not reads:
                    continue
                for gtxt, (gr, line) in sorted(reads.items()):
                    full = _Guards.conj([gr] + cstack)
                    cex, related = _Guards.implies(full, gws)
                    short = re.sub(r"FEAT::[\w:]*::", "", gtxt)
                    key = "%s/%s->%s/%s/read-under:%s" % (label, f.name, kern.name, p["n"], short[:110])
                    if cex is None:
                        ck.ob("E7.caller-kernel-gating", key, True, "read guard implies the gather guard %s" % " || ".join(_Guards.show(g) for g in gws)[:160], kern.file, line)
                        continue
                    msg = "%s reads %s (line %s) under %s, but %s fills it (%s, line %s) only under %s: for %s the kernel works on the initial value" % (
                        kern.name, p["n"], line, short, f.name, pw[0][2], pw[0][1], " || ".join(re.sub(r"FEAT::[\w:]*::", "", _Guards.show(g)) for g in gws),
                        ", ".join("%s=%s" % (re.sub(r"FEAT::[\w:]*::", "", k2), "true" if v else "false") for k2, v in sorted(cex.items())))
                    _finish(ck, "E7.caller-kernel-gating", key, [] if related else [msg], [msg] if related else [], "", f.file, pw[0][1])


# -------------------------------------------------------------------------------------------------
# TraceAssembler: slot consistency of the parallel per-facet arrays (_cells / _cell_facet / _facet_ori / _facets)
# -------------------------------------------------------------------------------------------------

TRACE_FILES = "|".join([F("kernel/assembly/trace_assembler.hpp"), "/verif/tu/c16_trace"])
_INT_TYPE = re.compile(r"^(const )?(FEAT::Index|Index|int|unsigned int|long|unsigned long|std::size_t|size_t|std::vector::size_type|IndexType|IT)$")
_ASSIGN_OPS = ("=", "+=", "-=", "*=", "/=", "%=", "|=", "&=", "^=", "<<=", ">>=")
UNKNOWN_SLOT = ("?", 0)


class SlotFlow:
    """forward dependence tags: which slot of the assembler's member arrays does a value depend on.
    tag = (array name, slot, conds); slot = (symbolic base of the index, offset) with the base taken at the start of
    the current iteration of the loop that advances the index, conds = frozenset of (condition key, polarity) from ?:.
    The tag sets are over-approximations of the true data dependence (calls: every output depends on every input),
    therefore only the ABSENCE of a tag is a definite statement."""

    def __init__(self, facts, fn, inline):
        self.facts, self.fn = facts, fn
        self.by_decl = {}
        for f in facts.functions:
            if f.tk != "pattern" and f.body is not None and f.d.get("decl") is not None:
                self.by_decl[f.d["decl"]] = f
        self.inline = inline
        self.tags = {}
        self.alias = {}
        self.idx = {}
        self.names = {}
        self.prepared = {}
        self.frames = [{"this": None, "ret": set(), "fn": fn, "path": ()}]
        self.lambdas = {}      # local variable key -> Lambda node (closures are evaluated where they are CALLED)
        self.alias_field = {}  # reference local -> field of the local object it is bound to
        self.events = {}
        self.fresh = 0
        self.nslots = 0

    # ---- store
    def read(self, key):
        if key is None:
            return frozenset()
        T = set(self.tags.get(key, ()))
        if key[0] == "f":
            # a field: its own tags and what was written to the enclosing object as a whole (not the sibling fields)
            o = key[1]
            while o is not None:
                T |= self.tags.get(o, frozenset())
                o = o[1] if o[0] == "f" else None
        else:
            for k2, v in self.tags.items():
                if k2[0] == "f" and k2[1] == key:
                    T |= v
        return frozenset(T)

    def write(self, key, T, strong=False):
        if key is None:
            return
        if strong:
            self.tags[key] = frozenset(T)
            for k2 in [k2 for k2 in self.tags if k2[0] == "f" and k2[1] == key]:
                del self.tags[k2]
        else:
            self.tags[key] = frozenset(self.tags.get(key, frozenset()) | T)

    def cur(self):
        return self.frames[-1]

    def type(self, n):
        return self.cur()["fn"].type(n.get("t"))

    def root(self, n):
        while isinstance(n, dict):
            k = n.get("k")
            if k == "Ref":
                if n.get("dk") in ("local", "param"):
                    key = ("l", n["d"])
                    return self.alias.get(key, key)
                return None
            if k == "This":
                return self.cur()["this"]
            if k == "Member":
                b = n.get("b") or {}
                if b.get("k") == "This" and n.get("field"):
                    th = self.cur()["this"]
                    return ("m", n.get("n")) if th is None else ("f", th, n.get("n"))
                n = b
            elif k == "Index":
                n = n.get("b")
            elif k == "OpCall" and n.get("a") and (n.get("op") in ("[]", "()", "->") or (n.get("op") == "*" and len(n["a"]) == 1)):
                n = n["a"][0]
            elif k in ("Cast", "Paren"):
                n = n.get("e")
            elif k == "Un" and n.get("op") in ("*", "&"):
                n = n.get("e")
            elif k == "MCall":
                n = n.get("obj")
            else:
                return None
        return None

    # ---- symbolic index values
    def sym(self, n):
        while isinstance(n, dict) and n.get("k") in ("Cast", "Paren") or (isinstance(n, dict) and n.get("k") in ("Construct", "TempObj") and len(n.get("a") or []) == 1):
            n = n.get("e") if n.get("k") in ("Cast", "Paren") else n["a"][0]
        if not isinstance(n, dict):
            return UNKNOWN_SLOT
        k = n.get("k")
        if k == "Int":
            return (("c",), int(n.get("v", 0)))
        if k == "Ref" and n.get("dk") in ("local", "param"):
            key = self.alias.get(("l", n["d"]), ("l", n["d"]))
            if key[0] == "l":
                self.names.setdefault(key[1], n.get("n"))
                return self.idx.get(key[1], (("v", key[1]), 0))
            return UNKNOWN_SLOT
        if k == "Bin" and n.get("op") in ("+", "-"):
            a, b = self.sym(n["lhs"]), self.sym(n["rhs"])
            if a[0] != "?" and b[0] == ("c",):
                return (a[0], a[1] + (b[1] if n["op"] == "+" else -b[1]))
            if n["op"] == "+" and b[0] != "?" and a[0] == ("c",):
                return (b[0], b[1] + a[1])
        return UNKNOWN_SLOT

    def show_slot(self, s):
        if s[0] == "?":
            return "?"
        b = s[0]
        name = "" if b == ("c",) else (self.names.get(b[1], "v%s" % b[1]) if b[0] in ("v", "it") else "?")
        if not name:
            return str(s[1])
        return name if s[1] == 0 else "%s%+d" % (name, s[1])

    # ---- expressions / statements
    def ev(self, n):
        if not isinstance(n, dict):
            return frozenset()
        m = getattr(self, "ev_" + str(n.get("k")), None)
        if m is not None:
            return m(n)
        T = set()
        for c in featlib.children(n):
            T |= self.ev(c)
        return frozenset(T)

    def ev_Block(self, n):
        for s in n.get("s") or []:
            self.ev(s)
        return frozenset()

    def ev_Decl(self, n):
        for vd in n.get("vars", []):
            self.ev(vd)
        return frozenset()

    def ev_Var(self, n):
        key = ("l", n["d"])
        self.names[n["d"]] = n.get("n")
        ty = self.type(n)
        init = n.get("init")
        if isinstance(init, dict) and init.get("k") == "Lambda":
            self.lambdas[key] = init
        T = self.ev(init) if init is not None else frozenset()
        is_ref = bool(n.get("ref")) or ty.rstrip().endswith("&")
        if is_ref and init is not None:
            r = self.root(init)
            if r is not None:
                self.alias[key] = r
                fld = self.field_of(init)
                if fld is not None:
                    self.alias_field[key] = fld
                return frozenset()
        self.alias.pop(key, None)
        self.write(key, T, strong=True)
        if _INT_TYPE.match(ty.strip()):
            self.idx[n["d"]] = self.sym(init) if init is not None else UNKNOWN_SLOT
        return frozenset()

    def ev_Ref(self, n):
        if n.get("dk") in ("local", "param"):
            self.names.setdefault(n["d"], n.get("n"))
            return self.read(self.alias.get(("l", n["d"]), ("l", n["d"])))
        return frozenset()

    def ev_This(self, n):
        return self.read(self.cur()["this"])

    def ev_Member(self, n):
        b = n.get("b") or {}
        if b.get("k") == "This":
            th = self.cur()["this"]
            if th is None:
                return self.read(("m", n.get("n")))
            return self.read(("f", th, n.get("n")))
        return self.ev(b)

    def ev_Un(self, n):
        e = n.get("e")
        if n.get("op") in ("++", "--", "post++", "post--", "++post", "--post") or "++" in str(n.get("op")) or "--" in str(n.get("op")):
            if isinstance(e, dict) and e.get("k") == "Ref" and e.get("dk") in ("local", "param"):
                d = self.alias.get(("l", e["d"]), ("l", e["d"]))
                if d[0] == "l":
                    v = self.idx.get(d[1], (("v", d[1]), 0))
                    self.idx[d[1]] = UNKNOWN_SLOT if v[0] == "?" else (v[0], v[1] + (1 if "++" in n["op"] else -1))
        return self.ev(e)

    def ev_Bin(self, n):
        return self.ev(n.get("lhs")) | self.ev(n.get("rhs"))

    def annotate(self, T, ckey, pol):
        out = set()
        for (a, s, c) in T:
            if (ckey, not pol) in c:
                continue
            out.add((a, s, frozenset(c | {(ckey, pol)})))
        return out

    def cond_key(self, c, pol=True):
        while isinstance(c, dict) and c.get("k") in ("Cast", "Paren"):
            c = c.get("e")
        if isinstance(c, dict) and c.get("k") == "Un" and c.get("op") == "!":
            return self.cond_key(c.get("e"), not pol)
        if isinstance(c, dict) and c.get("k") == "Ref" and c.get("dk") in ("local", "param"):
            return ("v", c["d"], c.get("n")), pol
        return ("e", 0, featlib.render(c)), pol

    def ev_Cond(self, n):
        Tc = self.ev(n.get("c"))
        ckey, pol = self.cond_key(n.get("c"))
        Tt, Te = self.ev(n.get("then")), self.ev(n.get("else"))
        if not Tt and not Te:
            # a selection between two constants (`reversed ? -1 : 1`) carries exactly what it was decided from
            return frozenset(Tc)
        return frozenset(self.annotate(Tt, ckey, pol) | self.annotate(Te, ckey, not pol))

    def ev_Assign(self, n):
        lhs, rhs = n.get("lhs"), n.get("rhs")
        T = self.ev(rhs)
        op = n.get("op", "=")
        if op != "=":
            T = T | self.ev(lhs)
        else:
            self.index_effects(lhs)
        key = self.root(lhs)
        plain = isinstance(lhs, dict) and lhs.get("k") == "Ref"
        if plain and key is not None and key[0] == "l":
            if op == "=":
                self.idx[key[1]] = self.sym(rhs)
            elif key[1] in self.idx:
                self.idx[key[1]] = UNKNOWN_SLOT
        self.write(key, T, strong=(plain and op == "="))
        return T

    def index_effects(self, lhs):
        """evaluate the index sub-expressions of an lvalue (for the consistency events) without reading the target"""
        if isinstance(lhs, dict) and (lhs.get("k") == "Index" or (lhs.get("k") == "OpCall" and lhs.get("op") in ("[]", "()"))):
            self.ev(lhs)

    def fork(self, branches):
        """run the alternatives on copies of the state and merge (tags: union, counters: equal or unknown)"""
        base_tags, base_idx, base_alias = dict(self.tags), dict(self.idx), dict(self.alias)
        results = []
        for b in branches:
            self.tags, self.idx, self.alias = dict(base_tags), dict(base_idx), dict(base_alias)
            if b is not None:
                self.ev(b)
            results.append((self.tags, self.idx, self.alias))
        tags = {}
        for t, _, _ in results:
            for k, v in t.items():
                tags[k] = frozenset(tags.get(k, frozenset()) | v)
        idx = {}
        for d in set().union(*[set(i) for _, i, _ in results]):
            vals = {i.get(d, (("v", d), 0)) for _, i, _ in results}
            idx[d] = vals.pop() if len(vals) == 1 else UNKNOWN_SLOT
        alias = {}
        for _, _, a in results:
            alias.update(a)
        self.tags, self.idx, self.alias = tags, idx, alias

    def field_of(self, t0):
        """outermost field of a local object that the lvalue / receiver expression t0 denotes (`tau.normal.negate()` -> normal),
        also through a reference local bound to such a field (`auto& nrm = tau.normal;`)"""
        fld = None
        while isinstance(t0, dict) and t0.get("k") in ("Member", "Index", "OpCall", "MCall", "Cast", "Paren", "Ref"):
            if t0.get("k") == "Ref":
                return self.alias_field.get(("l", t0.get("d")), fld)
            if t0.get("k") == "Member" and t0.get("field") and (t0.get("b") or {}).get("k") == "Ref":
                fld = t0.get("n")
                if ("l", t0["b"].get("d")) in self.alias_field:
                    fld = self.alias_field[("l", t0["b"]["d"])]
            t0 = t0.get("b") or t0.get("obj") or t0.get("e") or ((t0.get("a") or [None])[0])
        return fld

    def ev_If(self, n):
        self.ev(n.get("init"))
        Tc = self.ev(n.get("c"))
        if Tc and len(self.frames) == 1:
            # a decision on slot data that guards a modification of a field of some evaluation data (`if(ori < 0)
            # tau.normal.negate();`): the decision itself is an operand of that datum
            for br in (n.get("then"), n.get("else")):
                for x in walk(br) if br is not None else []:
                    tgt = None
                    if x.get("k") == "MCall" and not x.get("cconst"):
                        tgt = x.get("obj")
                    elif x.get("k") == "Assign":
                        tgt = x.get("lhs")
                    elif x.get("k") == "OpCall" and x.get("op") in _ASSIGN_OPS and x.get("a"):
                        tgt = x["a"][0]
                    fld = self.field_of(tgt)
                    r = self.root(tgt) if tgt is not None else None
                    if fld is not None and r is not None and r[0] == "l":
                        self.event("guard", x, self.read(r), Tc, "if(%s) %s" % (featlib.render(n.get("c"))[:60], featlib.render(x)[:60]), extra=fld)
        self.fork([n.get("then"), n.get("else")])
        return frozenset()

    def modified_counters(self, nodes):
        out = set()
        for part in nodes:
            for x in walk(part):
                e = None
                if x.get("k") == "Un" and ("++" in str(x.get("op")) or "--" in str(x.get("op"))):
                    e = x.get("e")
                elif x.get("k") == "Assign":
                    e = x.get("lhs")
                if isinstance(e, dict) and e.get("k") == "Ref" and e.get("dk") in ("local", "param"):
                    out.add(e["d"])
        return out

    def loop(self, n, cond, inc, body, pre=None):
        self.ev(n.get("init"))
        if pre is not None:
            self.ev(pre)
        mod = self.modified_counters([x for x in (inc, body) if x is not None])
        for _ in range(2):
            for d in mod:
                if d in self.idx or True:
                    self.idx[d] = (("it", d), 0)
            # the counter of a counting loop ranges over the extent given by its bound
            c = cond
            if isinstance(c, dict) and c.get("k") == "Bin" and c.get("op") in ("<", "<=", "!=", ">", ">="):
                for a, b in ((c.get("lhs"), c.get("rhs")), (c.get("rhs"), c.get("lhs"))):
                    while isinstance(a, dict) and a.get("k") in ("Cast", "Paren"):
                        a = a.get("e")
                    if isinstance(a, dict) and a.get("k") == "Ref" and a.get("d") in mod:
                        self.write(("l", a["d"]), self.ev(b))
            self.ev(cond)
            self.ev(body)
            self.ev(inc)
        for d in mod:
            self.idx[d] = UNKNOWN_SLOT

    def ev_For(self, n):
        self.loop(n, n.get("c"), n.get("inc"), n.get("body"))
        return frozenset()

    def ev_While(self, n):
        self.loop(n, n.get("c"), None, n.get("body"))
        return frozenset()

    def ev_Do(self, n):
        self.loop(n, n.get("c"), None, n.get("body"))
        return frozenset()

    def ev_ForRange(self, n):
        var = n.get("var")
        T = self.ev(n.get("range"))
        if isinstance(var, dict) and var.get("d") is not None:
            self.write(("l", var["d"]), T)
        self.loop({}, None, None, n.get("body"))
        return frozenset()

    def ev_Return(self, n):
        T = self.ev(n.get("e"))
        self.cur()["ret"] |= T
        return frozenset()

    def ev_Index(self, n):
        return self.indexed(n, n.get("b"), [n.get("idx")])

    def indexed(self, n, base, idxs):
        Tb = self.ev(base)
        Ti = frozenset().union(*[self.ev(i) for i in idxs]) if idxs else frozenset()
        extra = set()
        while isinstance(base, dict) and base.get("k") in ("Cast", "Paren"):
            base = base.get("e")
        if self.cur()["this"] is None and isinstance(base, dict) and base.get("k") == "Member" and (base.get("b") or {}).get("k") == "This" and len(idxs) == 1:
            extra.add((base.get("n"), self.sym(idxs[0]), frozenset()))
            self.nslots += 1
        if Tb and Ti:
            self.event("index", n, Tb, Ti, featlib.render(n))
        return frozenset(Tb | Ti | extra)

    def event(self, kind, n, owner, inp, text, extra=None):
        self.events[(self.cur()["path"], n.get("i"))] = {"kind": kind, "owner": owner, "input": inp, "text": text, "line": n.get("l"),
                                                         "file": self.cur()["fn"].file, "callee": n.get("callee", ""), "extra": extra}

    def ptypes(self, n):
        fn = self.cur()["fn"]
        return [fn.type(x) if isinstance(x, int) else str(x) for x in (n.get("pt") or [])]

    @staticmethod
    def is_out(t):
        t = t.strip()
        return (t.endswith("&") and not t.endswith("&&") and not t.startswith("const ")) or (t.endswith("*") and not t.startswith("const "))

    def call(self, n, obj, args, const_method):
        Tobj = self.ev(obj) if obj is not None else frozenset()
        Targs = [self.ev(a) for a in args]
        U = frozenset().union(*Targs) if Targs else frozenset()
        callee = self.by_decl.get(n.get("cdecl"))
        if callee is not None and len(self.frames) < 4 and self.inline(n, callee):
            return self.do_inline(n, callee, obj, args, Targs)
        pts = self.ptypes(n)
        for a, t in zip(args, pts):
            if self.is_out(t):
                self.write(self.root(a), Tobj | U)
        if obj is not None and not const_method:
            self.write(self.root(obj), U)
        return frozenset(Tobj | U)

    def do_inline(self, n, callee, obj, args, Targs):
        th = self.root(obj) if obj is not None else None
        own = obj is None or (isinstance(obj, dict) and obj.get("k") == "This")
        if own and callee.cls == self.cur()["fn"].cls:
            th = self.cur()["this"]       # a member helper called on the same object: its member reads are ours
        elif obj is not None and th is None:
            self.fresh += 1
            th = ("tmp", self.fresh)
            self.write(th, self.ev(obj), strong=True)
        frame = {"this": th, "ret": set(), "fn": callee, "path": self.cur()["path"] + (n.get("i"),)}
        binds = []
        for p, a, T in zip(callee.params, args, Targs):
            key = ("l", p["d"])
            ty = callee.type(p.get("t")).strip()
            r = self.root(a)
            if ty.endswith("&") and r is not None:
                binds.append(("alias", key, r, None))
            else:
                binds.append(("val", key, T, (p["d"], self.sym(a)) if _INT_TYPE.match(ty) else None))
        self.frames.append(frame)
        for kind, key, v, iv in binds:
            if kind == "alias":
                self.alias[key] = v
            else:
                self.alias.pop(key, None)
                self.write(key, v, strong=True)
                if iv is not None:
                    self.idx[iv[0]] = iv[1]
        self.ev(callee.body)
        self.frames.pop()
        return frozenset(frame["ret"])

    def ev_Call(self, n):
        return self.call(n, None, n.get("a") or [], True)

    def ev_Construct(self, n):
        return self.call(n, None, n.get("a") or [], True)

    def ev_TempObj(self, n):
        return self.call(n, None, n.get("a") or [], True)

    def ev_MCall(self, n):
        obj = n.get("obj")
        if n.get("n") == "prepare":
            r = self.root(obj)
            if r is not None:
                self.prepared[r] = n.get("callee", "")
        return self.call(n, obj, n.get("a") or [], bool(n.get("cconst")))

    def ev_OpCall(self, n):
        a = n.get("a") or []
        op = n.get("op")
        member = len(a) == len(n.get("pt") or []) + 1
        if op == "[]" and len(a) == 2:
            return self.indexed(n, a[0], a[1:])
        if op == "()" and a and self.root(a[0]) in self.lambdas and len(self.frames) < 6:
            # call of a local closure: its body runs NOW, reading the captured variables as they are at the call
            lam = self.lambdas[self.root(a[0])]
            Targs = frozenset().union(*[self.ev(x) for x in a[1:]]) if len(a) > 1 else frozenset()
            frame = {"this": self.cur()["this"], "ret": set(), "fn": self.cur()["fn"], "path": self.cur()["path"] + (n.get("i"),)}
            self.frames.append(frame)
            self.ev(lam.get("body"))
            self.frames.pop()
            return frozenset(frame["ret"] | Targs)
        if op == "()" and member and a:
            r = self.root(a[0])
            if r is not None and r in self.prepared:
                To = self.ev(a[0])
                pts = self.ptypes(n)
                Tin = frozenset().union(*[self.ev(x) for x, t in zip(a[1:], pts) if not self.is_out(t)]) if len(a) > 1 else frozenset()
                self.event("eval", n, To, Tin, featlib.render(n), extra=self.prepared[r])
                return self.call(n, a[0], a[1:], bool(n.get("cconst")))
            callee = self.by_decl.get(n.get("cdecl"))
            if callee is None or not self.inline(n, callee):
                return self.indexed(n, a[0], a[1:])
        if op in _ASSIGN_OPS and a:
            T = frozenset().union(*[self.ev(x) for x in a[1:]]) if len(a) > 1 else frozenset()
            if op != "=" and T and len(self.frames) == 1:
                # `tau.normal *= sign`: the slot data the sign was computed from decides the modification of the field
                fld = self.field_of(a[0])
                r = self.root(a[0])
                if fld is not None and r is not None and r[0] == "l":
                    self.event("guard", n, self.read(r), T, featlib.render(n)[:80], extra=fld)
            if op != "=":
                T = T | self.ev(a[0])
            else:
                self.index_effects(a[0])
            self.write(self.root(a[0]), T, strong=(op == "=" and a[0].get("k") == "Ref"))
            return T
        if member and a:
            return self.call(n, a[0], a[1:], bool(n.get("cconst")))
        return self.call(n, None, a, True)


def _slots_under(T, array, sigma):
    """slots of `array` in T on the path described by the condition assignment sigma"""
    out = set()
    for (a, s, c) in T:
        if a == array and all(sigma.get(k, p) == p for (k, p) in c):
            out.add(s)
    return out


def compare_slots(sf, owner, inp, pairs):
    """-> (problems, unknown, compared).  owner / inp: tag sets; pairs: [(array of the owner, array of the input)]"""
    problems, unknown = [], []
    compared = 0
    conds = sorted({k for T in (owner, inp) for (_, _, c) in T for (k, _) in c}, key=str)
    if len(conds) > 6:
        return [], ["more than 6 path conditions"], 0
    for A, B in pairs:
        if not any(a == A for (a, _, _) in owner) or not any(a == B for (a, _, _) in inp):
            continue
        compared += 1
        for bits in itertools.product((True, False), repeat=len(conds)):
            sigma = dict(zip(conds, bits))
            so, si = _slots_under(owner, A, sigma), _slots_under(inp, B, sigma)
            if so == si:
                continue
            path = ", ".join("%s%s" % ("" if p else "!", k[2]) for k, p in sorted(sigma.items(), key=str))
            txt = "%s[%s] vs %s[%s]%s" % (A, ",".join(sorted(sf.show_slot(s) for s in so)), B, ",".join(sorted(sf.show_slot(s) for s in si)), (" for " + path) if path else "")
            if len(so) == 1 and not any(s[0] == "?" for s in so | si) and not (so & si):
                problems.append(txt)
            else:
                unknown.append(txt)
    return problems, unknown, compared


def trace_inline(call, callee):
    """helper classes defined next to the assembler (CommonDofMap, CompIndexMap) and the private helpers of the assembler
    itself (extracted blocks: they read the per-facet arrays through `this`) are followed, everything else is a call"""
    if "trace_assembler.hpp" not in callee.file:
        return False
    if "::Intern::" in (callee.cls or ""):
        return True
    return strip_targs(callee.cls or "").endswith("Assembly::TraceAssembler") and not callee.name.startswith("assemble") and not callee.d.get("ctor")


def _append_balance(body, arrays):
    """the record arrays grow together: on every path through the function (and through one iteration of every loop) the
    number of push_back / emplace_back calls is the same for each of `arrays` (how the appends are grouped into blocks,
    nested ifs or early `continue`s does not matter).  -> (problems, unknown, number of appends)"""
    problems, unknown = [], []
    npush = [0]
    ZERO = tuple(0 for _ in arrays)

    def add(a, b):
        return tuple(x + y for x, y in zip(a, b))

    def own_pushes(n):
        """appends in the expression / simple statement n (not descending into nested statements)"""
        v = list(ZERO)
        line = None
        for x in walk(n):
            if x.get("k") == "MCall" and x.get("n") in ("push_back", "emplace_back"):
                o = x.get("obj") or {}
                if o.get("k") == "Member" and (o.get("b") or {}).get("k") == "This" and o.get("n") in arrays:
                    v[arrays.index(o.get("n"))] += 1
                    npush[0] += 1
                    line = x.get("l")
        return tuple(v), line

    def check_end(vec, line, what):
        if len(set(vec)) > 1:
            problems.append("%s at line %s appends %s: the routes index %s with one common slot index" % (
                what, line, ", ".join("%dx %s" % (c, a) for a, c in zip(arrays, vec)), ",".join(arrays)))

    def run(n, starts):
        """starts: set of count vectors on entry; -> set of vectors with which control falls through n"""
        if not isinstance(n, dict) or not starts:
            return starts
        if len(starts) > 64:
            unknown.append("more than 64 append-count combinations")
            return {next(iter(starts))}
        k = n.get("k")
        if k == "Block":
            cur = starts
            for st in n.get("s") or []:
                cur = run(st, cur)
            return cur
        if k == "If":
            c, _ = own_pushes(n.get("c"))
            s0 = {add(v, c) for v in starts}
            return run(n.get("then"), s0) | (run(n.get("else"), s0) if n.get("else") is not None else s0)
        if k in ("For", "While", "Do", "ForRange"):
            # one iteration must be balanced by itself; the loop as a whole then contributes nothing unbalanced
            out = run(n.get("body"), {ZERO})
            for v in out:
                check_end(v, n.get("l"), "one iteration of the loop")
            return starts
        if k in ("Return", "Continue", "Break", "Throw"):
            for v in starts:
                check_end(v, n.get("l"), "the path ending")
            return set()
        if k == "Switch":
            unknown.append("switch statement at line %s" % n.get("l"))
            return starts
        if k == "Try":
            return run(n.get("body") or n.get("s"), starts)
        c, line = own_pushes(n)
        return {add(v, c) for v in starts}
    for v in run(body, {ZERO}):
        check_end(v, None, "a path through the function")
    # every message once
    return sorted(set(problems)), sorted(set(unknown)), npush[0]


def check_trace_slots(ck, facts, tier):
    """E7.facet-slot-consistency"""
    rule = "E7.facet-slot-consistency"
    fns = [f for f in facts.functions if f.tk != "pattern" and f.body is not None and "trace_assembler.hpp" in f.file
           and strip_targs(f.cls or "").endswith("Assembly::TraceAssembler") and f.name.startswith("assemble")]
    groups = {}
    for f in sorted(fns, key=lambda f: f.full):
        m = re.search(r"Shape::(\w+)<(\d)>", f.cls)
        shape = "%s%s" % (m.group(1), m.group(2)) if m else "?"
        groups.setdefault((f.name, shape), []).append(f)
    analysed = []
    for (name, shape), fl in sorted(groups.items()):
        for k, f in enumerate(fl):
            label = "%s/%s%s" % (name, shape, "" if len(fl) == 1 else "#%d" % (k + 1))
            sf = SlotFlow(facts, f, trace_inline)
            try:
                sf.ev(f.body)
            except RecursionError:
                ck.incomplete(rule, "%s: expression nesting too deep for the tag propagation" % label)
                continue
            analysed.append((label, f, sf))
    # arrays through which the sibling routes map the cubature point into the cell
    point_arrays = set()
    for label, f, sf in analysed:
        for ev in sf.events.values():
            if ev["kind"] == "eval" and strip_targs(ev["callee"]).startswith("FEAT::Trafo::") and any(a == "_cells" for (a, _, _) in ev["owner"]):
                point_arrays |= {a for (a, _, _) in ev["input"]}
    # arrays from which the sibling routes take the decision to modify a given field of the evaluation data
    guard_arrays = {}
    for label, f, sf in analysed:
        for ev in sf.events.values():
            if ev["kind"] == "guard":
                guard_arrays.setdefault(ev["extra"], set()).update(a for (a, _, _) in ev["input"])
    # the arrays indexed by the facet-loop index form one record per slot: whoever appends to one appends to all, once
    record_arrays = sorted({a for _, _, sf in analysed for ev in sf.events.values() for T in (ev["owner"], ev["input"]) for (a, _, _) in T})
    seen_rec = set()
    for f in sorted(facts.functions, key=lambda f: f.full):
        if f.tk == "pattern" or f.body is None or "trace_assembler.hpp" not in f.file or not strip_targs(f.cls or "").endswith("Assembly::TraceAssembler"):
            continue
        problems, unknown_rec, npush = _append_balance(f.body, record_arrays)
        if not npush:
            continue
        m = re.search(r"Shape::(\w+)<(\d)>", f.cls)
        key = "records/%s/%s" % (f.name, "%s%s" % (m.group(1), m.group(2)) if m else "?")
        if key in seen_rec:
            continue
        seen_rec.add(key)
        _finish(ck, rule, key, problems, unknown_rec, "on every path every appending step appends equally often to each of %s" % ",".join(record_arrays), f.file, f.line)
    for label, f, sf in analysed:
        evs = sorted(sf.events.items(), key=lambda kv: (len(kv[0][0]), kv[1]["line"] or 0, kv[0][1] or 0))
        n_eval = 0
        idx_problems, idx_unknown, idx_n = [], [], 0
        first_idx = None
        for key, ev in evs:
            arrays_o = sorted({a for (a, _, _) in ev["owner"]})
            arrays_i = sorted({a for (a, _, _) in ev["input"]})
            if ev["kind"] == "guard":
                fld = ev["extra"]
                problems, unknown, compared = compare_slots(sf, ev["owner"], ev["input"], [(a, a) for a in arrays_i if a in arrays_o])
                for a in sorted(guard_arrays.get(fld, set()) - set(arrays_i)):
                    problems.append("the decision does not depend on %s at all (the sibling routes decide the same modification of .%s from %s)" % (a, fld, ",".join(sorted(guard_arrays[fld]))))
                what = "%s: decision taken from %s" % (ev["text"], ",".join(arrays_i))
                _finish(ck, rule, "%s/guard:%s" % (label, fld), ["%s: %s" % (what, p) for p in problems], ["%s: %s" % (what, u) for u in unknown],
                        "%s: same arrays as in the sibling routes, same slot as the modified data" % what, ev["file"], ev["line"])
                continue
            if ev["kind"] == "eval":
                if not arrays_o or not arrays_i:
                    continue
                n_eval += 1
                kind = "trafo" if strip_targs(ev["callee"]).startswith("FEAT::Trafo::") else "space"
                problems, unknown, compared = compare_slots(sf, ev["owner"], ev["input"], [(A, B) for A in arrays_o for B in arrays_i])
                if kind == "trafo" and "_cells" in arrays_o:
                    for a in sorted(point_arrays - set(arrays_i)):
                        problems.append("the point does not depend on %s at all (sibling routes map the cubature point through it)" % a)
                what = "%s: evaluator prepared from %s, input from %s" % (ev["text"], ",".join(arrays_o), ",".join(arrays_i))
                _finish(ck, rule, "%s/%s-eval#%d" % (label, kind, n_eval), ["%s: %s" % (what, p) for p in problems], ["%s: %s" % (what, u) for u in unknown],
                        "%s: same slot on every path (%d array pairs)" % (what, compared), ev["file"], ev["line"])
            else:
                common = [a for a in arrays_o if a in arrays_i]
                if not common:
                    continue
                problems, unknown, compared = compare_slots(sf, ev["owner"], ev["input"], [(a, a) for a in common])
                idx_n += 1
                if first_idx is None:
                    first_idx = ev
                idx_problems += ["%s (line %s): %s" % (ev["text"], ev["line"], p) for p in problems]
                idx_unknown += ["%s (line %s): %s" % (ev["text"], ev["line"], u) for u in unknown]
        if idx_n:
            _finish(ck, rule, "%s/indexed" % label, idx_problems, idx_unknown, "%d indexed accesses: index and indexed data belong to the same slot" % idx_n,
                    first_idx["file"], first_idx["line"])
        if not n_eval and sf.nslots:
            ck.incomplete(rule, "%s: no evaluation of a prepared evaluator with slot-dependent input was recognised" % label)


# -------------------------------------------------------------------------------------------------
# clear() of an assembler undoes the selection made through its add_*() methods
# -------------------------------------------------------------------------------------------------

def _this_member_root(n):
    """name of the this-member at the root of an lvalue / object expression, and whether the expression IS the member"""
    direct = True
    while isinstance(n, dict):
        k = n.get("k")
        if k == "Member":
            if (n.get("b") or {}).get("k") == "This" and n.get("field"):
                return n.get("n"), direct
            n = n.get("b")
        elif k == "MCall":
            n = n.get("obj")
        elif k == "OpCall" and n.get("a"):
            n = n["a"][0]
        elif k == "Index":
            n = n.get("b")
        elif k in ("Cast", "Paren"):
            n = n.get("e")
            continue
        elif k == "Un" and n.get("op") in ("*", "&"):
            n = n.get("e")
        else:
            return None, False
        direct = False
    return None, False


_CONTAINER_WRITERS = ("push_back", "emplace_back", "insert", "resize", "assign", "erase", "pop_back", "swap", "emplace")


def _members_written(fn):
    out = {}
    for n in fn.nodes():
        k = n.get("k")
        tgt = None
        if k == "Assign":
            tgt, _ = _this_member_root(n.get("lhs"))
        elif k == "OpCall" and n.get("op") in _ASSIGN_OPS and n.get("a"):
            tgt, _ = _this_member_root(n["a"][0])
        elif k == "Un" and ("++" in str(n.get("op")) or "--" in str(n.get("op"))):
            tgt, _ = _this_member_root(n.get("e"))
        elif k == "MCall" and n.get("n") in _CONTAINER_WRITERS:
            tgt, direct = _this_member_root(n.get("obj"))
        if tgt is not None:
            out.setdefault(tgt, n.get("l"))
    return out


def _members_read(fn):
    return {n.get("n") for n in fn.nodes() if n.get("k") == "Member" and (n.get("b") or {}).get("k") == "This" and n.get("field")}


def analyse_clear(fn, by_decl=None, depth=0):
    """-> (members reset on EVERY path through clear(), dead loops [(member, line)], unknown [text]).
    Path-wise walk over the statements (if / early return forked, private helpers of the class followed two levels deep);
    every spelling of "all elements of X := v" counts: X.clear(), X.assign(n, v), X = ..., swap with a fresh container,
    std::fill / fill_n over [X.begin(), X.end()), range-for by reference, index / iterator loops over the whole of X."""
    env = norm.DefEnv(fn)
    dead, unknown = [], []

    def member_of(n):
        m, direct = _this_member_root(env.alias(n))
        return m if direct else None

    def mentions_size(node, m, d=0):
        """node (locals resolved through their single definition) contains <member m>.size() / .end()"""
        for x in walk(node):
            if x.get("k") == "MCall" and x.get("n") in ("size", "end", "cend") and member_of(x.get("obj")) == m:
                return True
            if x.get("k") == "Ref" and d < 4:
                df = env.single_def(x.get("d"))
                if df is not None and mentions_size(df, m, d + 1):
                    return True
        return False

    def fresh_container(n):
        n = norm.strip(n)
        if n is None:
            return False
        if n.get("k") in ("Construct", "TempObj"):
            return not any(x.get("k") == "Member" and (x.get("b") or {}).get("k") == "This" for x in walk(n))
        if n.get("k") == "Ref" and n.get("dk") == "local":
            df = env.single_def(n.get("d"))
            return df is None or fresh_container(df)
        return False

    def emptiness_test(c, pol=True):
        """(member, polarity) if c is true exactly when <member> is empty (pol) / non-empty (not pol)"""
        c = norm.strip(c)
        if c is None:
            return None
        if c.get("k") == "Un" and c.get("op") == "!":
            return emptiness_test(c.get("e"), not pol)
        if c.get("k") == "MCall" and c.get("n") == "empty" and member_of(c.get("obj")):
            return member_of(c["obj"]), pol
        if c.get("k") == "Bin" and c.get("op") in ("==", "!=", ">", "<"):
            for a, b, op in ((c["lhs"], c["rhs"], c["op"]), (c["rhs"], c["lhs"], {"<": ">", ">": "<"}.get(c["op"], c["op"]))):
                a, b = norm.strip(a), norm.strip(b)
                while b is not None and b.get("k") in ("Construct", "TempObj") and len(b.get("a") or []) == 1:
                    b = norm.strip(b["a"][0])
                if a is not None and a.get("k") == "MCall" and a.get("n") == "size" and member_of(a.get("obj")) and b is not None and b.get("k") == "Int" and int(b.get("v", 1)) == 0:
                    if op == "==":
                        return member_of(a["obj"]), pol
                    if op in ("!=", ">"):
                        return member_of(a["obj"]), not pol
        return None

    def whole_loop_reset(st, state):
        """counted / iterator loop assigning every element of a member container"""
        body = st.get("body")
        ms = set()
        for x in walk(body):
            lhs = x.get("lhs") if x.get("k") == "Assign" and x.get("op") == "=" else (x["a"][0] if x.get("k") == "OpCall" and x.get("op") == "=" and x.get("a") else None)
            if lhs is None:
                continue
            X = norm.elem_access(lhs, env)
            m = member_of(X) if X is not None else None
            if m is not None:
                ms.add(m)
        if not ms:
            return False
        if any(x.get("k") == "MCall" and x.get("n") in _CONTAINER_WRITERS for x in walk(body)):
            return False
        for m in ms:
            if mentions_size(st.get("c"), m) or mentions_size(st.get("init"), m):
                if m in state["emptied"]:
                    dead.append((m, st.get("l")))
                else:
                    state["reset"].add(m)
            else:
                unknown.append("loop at line %s writes %s but does not run over all of it (bound is not its size / end)" % (st.get("l"), m))
        return True

    def touches_members(st):
        return {x.get("n") for x in walk(st) if x.get("k") == "Member" and (x.get("b") or {}).get("k") == "This" and x.get("field")}

    def do_stmt(st, state):
        """-> False if the path ends (return)"""
        k = st.get("k")
        if k == "Block":
            for st2 in st.get("s") or []:
                if not do_stmt(st2, state):
                    return False
            return True
        if k in ("Null_", "Decl") and not touches_members(st):
            return True
        if k == "Return":
            return False
        if k == "Call" and (st.get("callee") or "") == "FEAT::assertion":
            return True
        if k == "MCall":
            obj = st.get("obj")
            m = member_of(obj) if obj is not None else None
            if m is not None and st.get("n") == "clear":
                state["reset"].add(m)
                state["emptied"].add(m)
                return True
            if m is not None and st.get("n") == "assign":
                state["reset"].add(m)
                state["emptied"].discard(m)
                return True
            if st.get("n") == "swap" and len(st.get("a") or []) == 1:
                other = st["a"][0]
                mo = member_of(other)
                if m is not None and fresh_container(other):
                    state["reset"].add(m); state["emptied"].discard(m)
                    return True
                if mo is not None and fresh_container(obj):
                    state["reset"].add(mo); state["emptied"].discard(mo)
                    return True
            # a private helper of the same class: its statements are part of clear()
            tgt = by_decl.get(st.get("cdecl")) if by_decl else None
            if tgt is not None and tgt.body is not None and depth < 2 and (obj is None or norm.strip(obj).get("k") == "This") and tgt.cls == fn.cls:
                r2, d2, u2 = analyse_clear(tgt, by_decl, depth + 1)
                state["reset"] |= r2
                state["emptied"] -= r2
                dead.extend(d2)
                unknown.extend(u2)
                return True
        if k == "Assign" or (k == "OpCall" and st.get("op") == "="):
            lhs = st.get("lhs") if k == "Assign" else (st.get("a") or [None])[0]
            m = member_of(lhs)
            if m is not None:
                state["reset"].add(m)
                state["emptied"].discard(m)
                return True
        if k == "Call":
            effs = norm.container_effects(st, env)
            handled = False
            for e in effs:
                m = member_of(e["dst"])
                if m is None:
                    continue
                handled = True
                a = st.get("a") or []
                c = strip_targs(st.get("callee", ""))
                whole = False
                if c in ("std::fill", "std::iota") and len(a) == 3:
                    f0, f1 = norm.strip(a[0]), norm.strip(a[1])
                    whole = (f0.get("k") == "MCall" and f0.get("n") in ("begin", "data") and member_of(f0.get("obj")) == m and mentions_size(f1, m))
                elif c == "std::fill_n" and len(a) == 3:
                    f0 = norm.strip(a[0])
                    whole = f0.get("k") == "MCall" and f0.get("n") in ("begin", "data") and member_of(f0.get("obj")) == m and mentions_size(a[1], m)
                    gone = [m2 for m2 in sorted(state["emptied"]) if m2 != m and mentions_size(a[1], m2)]
                    if not whole and gone:
                        dead.append((gone[0], st.get("l")))      # the count is the size of a container emptied just before
                        continue
                elif c == "std::swap":
                    whole = e["src"][0] == "range" and fresh_container(e["src"][1])
                if whole and e["src"][0] in ("value", "counter", "range"):
                    if m in state["emptied"]:
                        dead.append((m, st.get("l")))
                    else:
                        state["reset"].add(m)
                else:
                    unknown.append("%s at line %s writes %s but not recognisably all of it" % (featlib.render(st)[:60], st.get("l"), m))
            if handled:
                return True
        if k == "ForRange":
            m = member_of(st.get("range"))
            var = st.get("var") or {}
            assigns = [x for x in walk(st.get("body")) if x.get("k") == "Assign" and x.get("op") == "=" and (x.get("lhs") or {}).get("k") == "Ref"
                       and x["lhs"].get("d") == var.get("d")]
            if m is not None:
                if m in state["emptied"]:
                    dead.append((m, st.get("l")))
                elif assigns and var.get("ref"):
                    state["reset"].add(m)
                else:
                    unknown.append("range-for over %s at line %s does not assign its elements" % (m, st.get("l")))
                return True
        if k in ("For", "While", "Do"):
            if whole_loop_reset(st, state):
                return True
        if k == "If":
            et = emptiness_test(st.get("c"))
            branches = []
            for br, pol in ((st.get("then"), True), (st.get("else"), False)):
                st2 = {"reset": set(state["reset"]), "emptied": set(state["emptied"])}
                if et is not None and et[1] == pol:
                    st2["reset"].add(et[0])          # the member is empty on this branch: nothing left to reset
                    st2["emptied"].add(et[0])
                alive = do_stmt(br, st2) if br is not None else True
                branches.append((alive, st2))
            cont = [b for a, b in branches if a]
            for a, b in branches:
                if not a:
                    ends.append(b)
            if not cont:
                return False
            state["reset"] = set.intersection(*[b["reset"] for b in cont])
            state["emptied"] = set.intersection(*[b["emptied"] for b in cont])
            return True
        if touches_members(st):
            unknown.append("%s at line %s" % (featlib.render(st)[:60], st.get("l")))
        return True

    ends = []
    state = {"reset": set(), "emptied": set()}
    if do_stmt(fn.body or {"k": "Block", "s": []}, state):
        ends.append(state)
    reset = set.intersection(*[e["reset"] for e in ends]) if ends else set()
    return reset, dead, unknown


def is_call_node(n):
    return featlib.is_call(n)


def check_clear_resets(ck, facts, tier):
    """E7.clear-resets-selection"""
    rule = "E7.clear-resets-selection"
    classes = {}
    for f in facts.functions:
        if f.tk == "pattern" or f.body is None or not f.cls or "/kernel/assembly/" not in f.file:
            continue
        classes.setdefault(strip_targs(f.cls), {}).setdefault(f.name, []).append(f)
    for cls, methods in sorted(classes.items()):
        compiles = [n for n in methods if n == "compile" or n.startswith("compile_")]
        if "clear" not in methods or not compiles:
            continue
        short = cls.rsplit("::", 1)[-1]
        pick = lambda name: sorted(methods[name], key=lambda f: f.full)[0]
        read = set()
        for n in compiles:
            read |= _members_read(pick(n))
        selection = {}
        for name in sorted(methods):
            f = pick(name)
            if name == "clear" or name in compiles or name == short or name.startswith("~") or name.startswith("assemble") or f.d.get("const") or f.d.get("inits"):
                continue
            for m, line in _members_written(f).items():
                if m in read:
                    selection.setdefault(m, []).append(name)
        fclear = pick("clear")
        by_decl = {f.d.get("decl"): f for f in facts.functions if f.tk != "pattern" and f.body is not None and f.d.get("decl") is not None}
        reset, dead, unknown = analyse_clear(fclear, by_decl)
        for m, writers in sorted(selection.items()):
            key = "%s::clear/%s" % (short, m)
            problems = []
            if m not in reset:
                extra = "".join("; the loop / fill at line %s runs over %s, which was emptied by clear() just before, and never executes" % (l, dm) for dm, l in dead)
                problems.append("%s is written by %s() and read by %s(), but clear() does not reset it%s: after clear() the next compile() still sees the old selection" % (
                    m, "(), ".join(sorted(set(writers))), "(), ".join(compiles), extra))
            _finish(ck, rule, key, problems if not unknown or m in reset else [], unknown if (unknown and m not in reset) else [],
                    "%s (written by %s, read by %s) is reset by clear()" % (m, ",".join(sorted(set(writers))), ",".join(compiles)), fclear.file, fclear.line)
