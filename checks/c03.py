"""C03 — matrix algebra operations (axpy/scale, row/column scaling, lumping, diagonal, row norms, min/max,
sparse matrix products onto a prescribed pattern) equal their dense definitions; pattern violations abort.

Static rules (no FEAT3 code is executed) on the resolved program as seen by the clang front end:

  E1  Arch call sites of SparseMatrixCSR / SparseMatrixBCSR: every slot named by the callee's parameters
      receives the like-named quantity of the right object (this->val() ..., the operand matrix, the vector
      operand, block dimensions), extents in the perspective of the arrays; the length guard of every vector
      operand names the dimension the kernel subscripts it by;
  E2  generic kernels scale_row_col / lumping / row_norm / diagonal: outer loop over rows, inner loop over
      [row_ptr[row], row_ptr[row+1]), every array subscripted by the index kind of its role (entry / row /
      col_ind[entry], with the blocked affine forms), per-row results defined for empty rows, reductions only
      accumulate inside the entry loop, the per-entry update equals the documented formula;
  E2  index kinds in the sorted-merge products (add_double_mat_product, add_mat_mat_product), with the
      function's own XASSERTs as the only dimension equalities;
  E7  'no silent drop' in the merge loops (path enumeration with helper inlining, lib/norm_c03): the B-cursor only
      advances after the accumulate statement or under allow_incomplete, every other way out - inside or behind the
      loop, in the product or in an extracted helper - aborts; both cursors are bounds-checked before dereference;
  E2  dense products (ProductMatMat::dense_generic / dsd_generic behind DenseMatrix::multiply): loop ranges, row-major
      addresses, per-element sum, and the net effect r <- beta*z + alpha*sum on every path through tests of the scalars,
      also when the summand is the output array (statements compose in program order);
  (note) sibling agreement of the five merge loops.
"""
import re

import sympy

import featlib
from featlib import Check, walk, render, is_call, rel
from lafem_roles import (Unknown, strip_targs, defile, strip, Locals, perspective, objkey, accessor, const_value,
                         assertions, counting_loop, is_zero, flatten_if_chain, stmts, live_must_pass)
from norm_c03 import Frame, MergeInterp
from norm_c04 import inline_helpers, fuse_while, loop_form, alias_value, EMPTY, scalar_guard, array_units, partitions, pattern_label

LAFEM = featlib.repo_path("kernel/lafem/")
MATRIX_CLASSES = ("FEAT::LAFEM::SparseMatrixCSR", "FEAT::LAFEM::SparseMatrixBCSR")
MERGE_FUNCS = ("add_double_mat_product", "add_mat_mat_product")
# members that implement the operations of the property at container level (not transposing, not converting)
ALGEBRA_MEMBERS = ("axpy", "scale", "scale_rows", "scale_cols", "shrink", "lump_rows", "extract_diag", "extract_diag_indices",
                   "row_norm2", "row_norm2sqr", "norm_frobenius", "max_abs_element", "min_abs_element", "max_element", "min_element",
                   "add_double_mat_product", "add_mat_mat_product", "add_trace_double_mat_mult")

# index kind by which a vector slot of a matrix kernel is subscripted; source: the documented formulas
#   scale_rows: this_ij <- x_ij * s_i     scale_cols: this_ij <- x_ij * s_j      lump_i = sum_j a_ij
#   row_norm2(sqr)_i = (sqrt) sum_j a_ij^2      row_norm2sqr(scal)_i = sum_j scal_j a_ij^2  (sparse_matrix_csr.hpp doxygen)
#   extract_diag_indices: diag_i = position of a_ii
SLOT_KIND = {("ScaleRows", "x"): "row", ("ScaleCols", "x"): "col", ("Lumping", "lump"): "row", ("Diagonal", "diag"): "row",
             ("RowNorm", "row_norms"): "row", ("RowNorm", "scal"): "col"}
NZ_SLOTS = {"r", "a", "val"}
MATRIX_KERNELS = {"ScaleRows", "ScaleCols", "Lumping", "Diagonal", "RowNorm"}
FLAT_KERNELS = {"Axpy", "Scale", "Norm2", "MaxAbsIndex", "MinAbsIndex", "MaxIndex", "MinIndex"}
ARCH_RE = r"^FEAT::LAFEM::Arch::(%s)::" % "|".join(sorted(MATRIX_KERNELS | FLAT_KERNELS))

f_abs = sympy.Function("absf")
f_sqrt = sympy.Function("sqrtf")
ROW, K, COL, I, J, BH, BW = sympy.symbols("ROW K COL I J BH BW")
ACC = sympy.Symbol("acc")


def short(qn):
    return strip_targs(qn).replace("FEAT::LAFEM::Arch::", "").replace("FEAT::LAFEM::", "")


def mat_class(tyname):
    t = re.sub(r"^(const\s+)+", "", (tyname or "").strip())
    t = re.sub(r"[\s&*]+(const)?$", "", t).strip()
    m = re.match(r"^(?:FEAT::)?(?:LAFEM::)?(SparseMatrixCSR|SparseMatrixBCSR)<.*>$", t)
    return m.group(1) if m else None


def vec_like(tyname):
    t = re.sub(r"^(const\s+)+", "", (tyname or "").strip())
    t = re.sub(r"[\s&*]+(const)?$", "", t).strip()
    return re.search(r"(DenseVectorBlocked|DenseVector)<.*>$|::VectorType[LR]$", t) is not None


# -------------------------------------------------------------------------------------------------
# E1: call sites
# -------------------------------------------------------------------------------------------------
def check_matrix_call(ck, fn, call, dbg_asserts):
    loc = Locals(fn)
    struct = re.match(ARCH_RE, call["callee"]).group(1)
    kname = call["callee"].rsplit("::", 1)[-1]
    blocked = strip_targs(fn.cls) == "FEAT::LAFEM::SparseMatrixBCSR"
    sig = "(%s)" % ",".join(p["n"] for p in fn.params)
    key = "%s::%s%s/%s::%s" % (short(fn.cls), fn.name, sig, struct, kname)
    pn, args = call.get("pn", []), call.get("a", [])
    if len(pn) != len(args):
        ck.incomplete("E1.slots", "%s: %d arguments for %d parameters" % (key, len(args), len(pn)))
        return
    mats = [p["n"] for p in fn.params if mat_class(fn.type(p["t"]))]
    vecs = [p["n"] for p in fn.params if vec_like(fn.type(p["t"])) and not mat_class(fn.type(p["t"]))]
    scal = [p["n"] for p in fn.params if not mat_class(fn.type(p["t"])) and not vec_like(fn.type(p["t"]))]
    out_vecs = [p["n"] for p in fn.params if p["n"] in vecs and not fn.type(p["t"]).strip().startswith("const")]
    in_vecs = [v for v in vecs if v not in out_vecs]
    m = re.search(r"SparseMatrixBCSR<[^<>]*,\s*(\d+),\s*(\d+)>$", fn.cls)
    bh, bw = (int(m.group(1)), int(m.group(2))) if m else (1, 1)
    problems = []
    persp_arr = set()
    persp_ext = {}
    used = {}
    for slot, a in zip(pn, args):
        acc = accessor(loc, a)
        want = None
        if struct in FLAT_KERNELS:
            # r/x of the flat kernels are value arrays of the receiver and of the operand matrix
            if slot == "r":
                want = ("this", "val")
            elif slot == "x":
                want = (mats[0], "val") if ("r" in pn and mats) else ("this", "val")
            elif slot == "size":
                want = ("this|" + "|".join(mats), "used_elements")
            elif slot in ("a", "s"):
                want = ("scalar", None)
        else:
            if slot in ("val", "col_ind", "row_ptr", "rows", "columns", "used_elements"):
                want = ("this", slot)
            elif slot == "r":
                want = ("this", "val")
            elif slot == "a":
                want = (mats[0] if mats else "?", "val")
            elif slot in ("BlockHeight", "BlockWidth"):
                want = ("const", bh if slot == "BlockHeight" else bw)
            elif (struct, slot) in SLOT_KIND:
                cand = out_vecs if slot in ("lump", "diag", "row_norms") else in_vecs
                want = (cand[0] if len(cand) == 1 else "?", "elements")
        if want is None:
            ck.incomplete("E1.slots", "%s: slot %s of %s::%s is not in the role table" % (key, slot, struct, kname))
            return
        if want[0] == "scalar":
            v = loc.resolve(a)
            if not (v.get("k") == "Ref" and v.get("dk") == "param") or len(scal) != 1:
                ck.incomplete("E1.slots", "%s: scalar slot %s receives the expression `%s` (not a plain parameter)" % (key, slot, render(v)[:60]))
                return
            if v.get("n") not in scal:
                problems.append("scalar slot %s receives `%s`, not the scalar parameter %s" % (slot, render(v), scal))
            continue
        if want[0] == "const":
            v = const_value(loc, a)
            r = loc.resolve(a)
            nm = r.get("n", "") if r.get("k") in ("Ref", "Member") else ""
            if v is None:
                ck.incomplete("E1.slots", "%s: slot %s receives `%s`, not a compile-time constant" % (key, slot, render(a)[:60]))
                return
            if int(v) != want[1] or (nm and slot.lower() not in nm.lower().replace("_", "")):
                problems.append("slot %s receives `%s` (= %s), expected the matrix' %s = %d" % (slot, render(a), v, slot, want[1]))
            continue
        if acc is None or "?" in want[0]:
            ck.incomplete("E1.slots", "%s: slot %s receives `%s`, which is not an accessor call the rule models (expected %s.%s())" % (key, slot, render(a)[:80], want[0], want[1]))
            return
        if acc["obj"] not in want[0].split("|") or acc["name"] != want[1]:
            problems.append("slot %s receives %s.%s(), expected %s.%s()" % (slot, acc["obj"], acc["name"], want[0], want[1]))
            continue
        used[slot] = acc
        if blocked and acc["name"] in ("val", "elements") and "Blocked" in acc["cls"] + ("Blocked" if acc["name"] == "val" else ""):
            persp_arr.add(acc["persp"])
        if blocked and acc["name"] in ("rows", "columns", "used_elements"):
            persp_ext[slot] = acc["persp"] or "native"
    if struct in FLAT_KERNELS and blocked and not problems:
        # flat kernels walk the scalar entries: pod arrays with the pod entry count
        if persp_arr != {"pod"}:
            problems.append("flat kernel on a blocked matrix needs Perspective::pod arrays, got %s" % sorted(map(str, persp_arr)))
        if persp_ext.get("size") != "pod":
            problems.append("arrays in Perspective::pod but the entry count in Perspective::%s" % persp_ext.get("size"))
    if struct in MATRIX_KERNELS and blocked and not problems:
        # blocked structure kernels address blocks: rows/columns/used_elements count blocks (native)
        bad = {s: p for s, p in persp_ext.items() if p != "native"}
        if bad:
            problems.append("block-structure kernel receives extents %s in pod perspective" % bad)
    if "size" in used and used["size"]["obj"] != "this":
        eq = False
        for cond, _ in assertions(fn):
            c = strip(cond)
            if c.get("k") == "Bin" and c.get("op") == "==":
                l, r = accessor(loc, c["lhs"]), accessor(loc, c["rhs"])
                if l and r and {l["name"], r["name"]} == {"used_elements"} and {l["obj"], r["obj"]} == {"this", used["size"]["obj"]}:
                    eq = True
        # (without such an assertion the operand's count still equals the receiver's for every admissible input)
    ck.ob("E1.slots", key, not problems, "; ".join(problems) if problems else "slots %s <- %s" % (pn, [render(a) for a in args]),
          fn.file, call.get("l"), sample={"callee_params": pn, "args": [render(a) for a in args]})
    # ---- vector guards ---------------------------------------------------------------------------
    for slot in pn:
        kind = SLOT_KIND.get((struct, slot))
        if kind is None or slot not in used:
            continue
        vec = used[slot]["obj"]
        want_dim = "rows" if kind == "row" else "columns"
        gkey = "%s/%s" % (key, slot)
        found = []
        for cond, origin in [(c, "XASSERT") for c, _ in assertions(fn)] + [(c, "ASSERT") for c in dbg_asserts.get((fn.cls, fn.name, sig), [])]:
            c = strip(cond)
            if c.get("k") == "Bin" and c.get("op") == "==":
                l, r = accessor(loc, c["lhs"]), accessor(loc, c["rhs"])
                if l and r:
                    if r["obj"] == vec and r["name"] == "size":
                        l, r = r, l
                    if l["obj"] == vec and l["name"] == "size" and r["obj"] == "this":
                        found.append((r["name"], origin))
        dims = {d for d, _ in found}
        always = any(o == "XASSERT" for _, o in found)
        square = any(strip(c).get("k") == "Bin" and strip(c).get("op") == "==" and
                     {(accessor(loc, strip(c)["lhs"]) or {}).get("name"), (accessor(loc, strip(c)["rhs"]) or {}).get("name")} == {"rows", "columns"}
                     for c, _ in assertions(fn))
        dims &= {"rows", "columns"}
        ok = (want_dim in dims) or square
        if not dims:
            ck.ob("E1.vector-guard", gkey, True, "no guard of `%s.size()` against a matrix dimension recognised (admissible inputs have the right length; a guard elsewhere is not modelled)" % vec, fn.file, call.get("l"), trivial=True)
            continue
        ck.ob("E1.vector-guard", gkey, ok,
              ("`%s` is subscripted by %s index in %s::%s and guarded by size()==%s()" % (vec, kind, struct, kname, want_dim)) if ok else
              ("`%s` is subscripted by the %s index in %s::%s (slot %s) but the function guards its length by %s; expected %s.size() == this->%s()%s" % (
                  vec, "row" if kind == "row" else "column (col_ind)", struct, kname, slot, ["size()==%s() [%s]" % f for f in found], vec, want_dim, "")),
              fn.file, call.get("l"))


BLOCKED_CONTAINERS = ("FEAT::LAFEM::SparseMatrixBCSR", "FEAT::LAFEM::DenseVectorBlocked", "FEAT::LAFEM::SparseVectorBlocked")


def check_pool_site(ck, fn, call):
    """E1.slots for the library array routines (MemoryPool::set_memory / copy / convert: `count` elements of the pointee type)
    inside the matrix-algebra members: value arrays and count in the same unit (scalars of the pod perspective vs blocks)"""
    loc = Locals(fn)
    sig = "(%s)" % ",".join(p["n"] for p in fn.params)
    key = "%s::%s%s/%s" % (short(fn.cls), fn.name, sig, call["callee"].replace("FEAT::", ""))
    u = array_units(fn, loc, call, BLOCKED_CONTAINERS)
    if u is None:
        return
    ptr_units, cu, desc = u
    if cu is None:
        ck.incomplete("E1.slots", "%s: %s - the count is not an extent accessor or a constant (computed count: not modelled)" % (key, desc))
        return
    bad = cu != "const" and any(pu != cu for pu in ptr_units)
    ck.ob("E1.slots", key, not bad,
          ("%s: the array is addressed in %s but the count is in %s: only 1/(BlockHeight*BlockWidth) of the scalars are touched (or the routine overruns the array)" % (
              desc, "scalars (Perspective::pod)" if "scalar" in ptr_units else "blocks", "blocks (native perspective)" if cu == "block" else "scalars")) if bad else desc,
          fn.file, call.get("l"), trivial=(cu == "const"))


def check_dispatch(ck, fn):
    """Arch::X::<entry> wrappers forward each parameter to the like-named slot of the implementation they select"""
    struct = strip_targs(fn.cls).rsplit("::", 1)[-1]
    it = [fn.type(p["t"]) for p in fn.params]
    tag = "%s,%s" % (re.sub(r"\W+", "", it[0].replace("const", "")) if it else "", re.sub(r"\W+", "", it[2].replace("const", "")) if len(it) > 2 else "")
    key = "%s::%s(%s)" % (struct, fn.name, tag)
    own = {p["d"]: p["n"] for p in fn.params}
    stem = fn.name.split("_")[0]
    impl = [c for c in fn.calls(callee_re=r"^" + re.escape(fn.cls) + r"::") if "generic" in c["callee"].rsplit("::", 1)[-1] or "cuda" in c["callee"].rsplit("::", 1)[-1] or "mkl" in c["callee"].rsplit("::", 1)[-1]]
    if not impl:
        ck.incomplete("E1.dispatch", "%s: no call to an implementation" % key)
        return
    problems = []
    ids = set()
    for c in impl:
        ids.add(c["i"])
        cname = c["callee"].rsplit("::", 1)[-1]
        want_suffix = fn.name[len(stem):]          # e.g. csr_norm2 -> _norm2 ; bcsr -> ''
        mm = re.match(r"^(csr|bcsr)_(?:generic|cuda|mkl|cuda_intern)(_\w+)?$", cname)
        if not mm:
            ck.incomplete("E1.dispatch", "%s: implementation name `%s` does not follow <format>_<backend>[_<operation>]" % (key, cname))
            return
        if mm.group(1) != stem or (mm.group(2) or "") != want_suffix:
            problems.append("%s selects %s (another operation)" % (fn.name, cname))
        for k, (slot, a) in enumerate(zip(c.get("pn", []), c.get("a", []))):
            a = strip(a)
            if not (a.get("k") == "Ref" and a.get("d") in own):
                ck.incomplete("E1.dispatch", "%s: %s receives the expression `%s` in slot %d (not a plain parameter)" % (key, cname, render(a)[:60], k))
                return
            elif slot and own[a["d"]] != slot:
                problems.append("%s: slot %s receives `%s`" % (cname, slot, own[a["d"]]))
            elif not slot and [p["n"] for p in fn.params].index(own[a["d"]]) != k:
                problems.append("%s: unnamed slot %d receives `%s`" % (cname, k, own[a["d"]]))
    cfg = fn.cfg
    if cfg is not None:
        ok, bad = live_must_pass(fn, lambda n: any(x.get("i") in ids for x in walk(n)))
        if not ok:
            ck.incomplete("E1.dispatch", "%s: a normal exit is reachable without a call to an implementation of the same struct (work done inline or by an unmodelled callee?)" % key)
            return
    ck.ob("E1.dispatch", key, not problems, "; ".join(problems) if problems else "forwards %s to %s" % (list(own.values()), sorted({c["callee"].rsplit("::", 1)[-1] for c in impl})), fn.file, fn.line)


# -------------------------------------------------------------------------------------------------
# E2: matrix kernels
# -------------------------------------------------------------------------------------------------
class Wrong(Exception):
    """a definite index-kind violation"""
    pass


class MKernel:
    def __init__(self, fn, struct):
        self.fn = fn
        self.struct = struct
        self.loc = Locals(fn)
        self.params = {p["d"]: p["n"] for p in fn.params}
        self.ptr = {p["d"] for p in fn.params if "*" in fn.type(p["t"])}
        self.role = {}       # loop var decl id -> ROW/K/I/J
        self.acc = set()
        self.rowvars = {}    # decl id of a per-row result local -> symbol of the output it is stored to
        m = re.search(r"<(\d+),\s*(\d+),", fn.full.rsplit("::", 1)[-1])
        self.tdims = (int(m.group(1)), int(m.group(2))) if m else None
        self.blocked = "bcsr" in fn.name

    # -- integer index expressions ---------------------------------------------------------------
    def isym(self, n):
        n = self.loc.resolve(n)
        k = n.get("k")
        if k == "Int":
            return sympy.Integer(int(n["v"]))
        if k == "Ref":
            d = n.get("d")
            if d in self.role:
                return self.role[d]
            if d in self.params:
                nm = self.params[d]
                if nm == "BlockHeight":
                    return BH
                if nm == "BlockWidth":
                    return BW
                if nm == "rows":
                    return sympy.Symbol("rows")
            raise Unknown("index term `%s`" % render(n))
        if k == "Bin" and n.get("op") == "-":
            pa, pb = self.ptr_off(n["lhs"]), self.ptr_off(n["rhs"])
            if pa is not None and pb is not None:
                if pa[0] != pb[0]:
                    raise Unknown("difference of pointers into different arrays `%s`" % render(n))
                return pa[1] - pb[1]            # `last - first` of a range inside one array
            if pa is None and pb is None:
                return self.isym(n["lhs"]) - self.isym(n["rhs"])
        if k == "Bin" and n.get("op") in ("+", "*"):
            a, b = self.isym(n["lhs"]), self.isym(n["rhs"])
            return a + b if n["op"] == "+" else a * b
        if k == "Index":
            p, addr, comps = self.address(n)
            if p == "col_ind" and sympy.expand(addr - K) == 0 and not comps:
                return COL
            if p == "col_ind":
                raise Wrong("col_ind subscripted by %s (expected the entry index)" % addr)
            raise Unknown("index term `%s`" % render(n))
        raise Unknown("index term `%s` (%s)" % (render(n), k))

    def ptr_off(self, n):
        """pointer expression into a parameter array (`val`, `val + e`, a const local holding such a value) -> (param decl id, offset)"""
        n = self.loc.resolve(n)
        if n.get("k") == "Ref" and n.get("d") in self.ptr:
            return n["d"], sympy.Integer(0)
        if n.get("k") == "Bin" and n.get("op") in ("+", "-"):
            pa = self.ptr_off(n["lhs"])
            if pa is not None:
                try:
                    o = self.isym(n["rhs"])
                except Unknown:
                    return None
                return pa[0], (pa[1] + o if n["op"] == "+" else pa[1] - o)
            if n["op"] == "+":
                pb = self.ptr_off(n["rhs"])
                if pb is not None:
                    try:
                        return pb[0], pb[1] + self.isym(n["lhs"])
                    except Unknown:
                        return None
        if n.get("k") == "Un" and n.get("op") == "&":
            e = strip(n["e"])
            if e.get("k") == "Index":
                pa = self.ptr_off(e["b"])
                if pa is not None:
                    return pa[0], pa[1] + self.isym(e["idx"])
        return None

    def deref(self, n):
        """strip wrappers; a reference local bound to an array element (`BlockType& r_i(br[i])`) denotes that element"""
        n = strip(n)
        for _ in range(6):
            if n.get("k") == "Ref" and n.get("dk") == "local":
                v = self.loc.var.get(n.get("d"))
                if v is not None and v.get("ref") and v.get("init") is not None and n.get("d") not in self.loc.written:
                    n = strip(v["init"])
                    continue
            break
        return n

    def address(self, n):
        """Index / Tiny component chain -> (param name, flat address expr, [component symbols])"""
        comps = []
        n = self.deref(n)
        while n.get("k") == "OpCall" and n.get("op") == "[]" and len(n.get("a", [])) == 2:
            comps.insert(0, self.isym(n["a"][1]))
            n = self.deref(n["a"][0])
        if n.get("k") != "Index":
            raise Unknown("`%s` is not an array access" % render(n))
        pa = self.ptr_off(n["b"])
        if pa is None:
            raise Unknown("array `%s` is not a parameter (or a pointer into one)" % render(n["b"]))
        return self.params[pa[0]], pa[1] + self.isym(n["idx"]), comps

    def cell(self, n):
        """array access -> Symbol(param) if subscripted by the index kind of its role"""
        p, addr, comps = self.address(n)
        kind = "nz" if p in NZ_SLOTS else SLOT_KIND.get((self.struct, p))
        if p == "row_ptr":
            if sympy.expand(addr - ROW) == 0 or sympy.expand(addr - ROW - 1) == 0 or addr == sympy.Symbol("rows"):
                return sympy.Symbol("row_ptr@" + str(addr))
            raise Wrong("row_ptr subscripted by %s" % addr)
        if p == "col_ind":
            if sympy.expand(addr - K) == 0:
                return COL
            raise Wrong("col_ind subscripted by %s (expected the entry index)" % addr)
        if kind is None:
            raise Unknown("array parameter `%s` has no role" % p)
        major = {"nz": K, "row": ROW, "col": COL}[kind]
        if not self.blocked:
            forms = [(major, [])]
        elif comps:
            forms = [(major, {"nz": [I, J], "row": [I], "col": [J]}[kind])]
        else:
            forms = [({"nz": BH * BW * K + I * BW + J, "row": BH * ROW + I, "col": BW * COL + J}[kind], [])]
        for fa, fc in forms:
            if sympy.expand(addr - fa) == 0 and comps == fc:
                return sympy.Symbol(p)
        # the address was normalised by isym(): every atom is a classified one (row, entry, col_ind[entry], block row/column
        # loop variables, block dimensions) -- anything else raised Unknown there.  A polynomial over these atoms that differs
        # from the admissible form addresses a different element: definite violation; give a concrete witness.
        witness = ""
        want_addr = forms[0][0]
        try:
            import itertools
            for bh_, bw_ in ((2, 3), (3, 2), (2, 2), (1, 1)):
                for k_, r_, c_, i_, j_ in itertools.product(range(2), range(2), range(2), range(bh_), range(bw_)):
                    sub = {BH: bh_, BW: bw_, K: k_, ROW: r_, COL: c_, I: i_, J: j_}
                    got, exp = sympy.sympify(addr).subs(sub), sympy.sympify(want_addr).subs(sub)
                    if got.is_number and exp.is_number and got != exp and comps == forms[0][1]:
                        witness = "; witness: block %dx%d, entry/row/col=%d/%d/%d, i=%d, j=%d addresses element %s instead of %s" % (bh_, bw_, k_, r_, c_, i_, j_, got, exp)
                        raise StopIteration
        except StopIteration:
            pass
        raise Wrong("array `%s` (%s-indexed: %s) is subscripted by %s%s, expected %s%s" % (
            p, {"nz": "entry", "row": "row", "col": "column"}[kind], {"nz": "one value per stored entry", "row": "one value per row", "col": "one value per column"}[kind],
            addr, "".join("[%s]" % c for c in comps), forms[0][0], "".join("[%s]" % c for c in forms[0][1])) + witness)

    def vsym(self, n):
        n = strip(n)
        k = n.get("k")
        if k == "Int":
            return sympy.Integer(int(n["v"]))
        if k == "Float":
            return sympy.Rational(str(n.get("text") or n["v"]).rstrip("fFlL"))
        if k == "Ref":
            if n.get("d") in self.acc:
                return ACC
            if n.get("d") in self.rowvars:
                return self.rowvars[n["d"]]        # per-row local that holds the row's result until it is stored
            r = self.loc.resolve(n)
            if r is not n and r.get("k") != "Ref":
                return self.vsym(r)
            raise Unknown("value `%s`" % render(n))
        if k == "Index" or (k == "OpCall" and n.get("op") == "[]"):
            return self.cell(n)
        if k == "Bin" and n.get("op") in ("+", "-", "*", "/"):
            a, b = self.vsym(n["lhs"]), self.vsym(n["rhs"])
            return {"+": a + b, "-": a - b, "*": a * b, "/": a / b}[n["op"]]
        if k == "Call" and len(n.get("a", [])) == 1:
            c = strip_targs(n.get("callee", ""))
            if c == "FEAT::Math::sqr":
                return self.vsym(n["a"][0]) ** 2
            if c in ("FEAT::Math::sqrt", "std::sqrt"):
                return f_sqrt(self.vsym(n["a"][0]))
            if c in ("FEAT::Math::abs",):
                return f_abs(self.vsym(n["a"][0]))
        raise Unknown("expression `%s` (%s)" % (render(n)[:70], k))

    # -- loops -------------------------------------------------------------------------------------
    def classify_for(self, node, env):
        lf = loop_form(node)
        if lf is None or lf["others"] or lf["down"] or lf["hi_off"]:
            raise Unknown("loop at line %s is not an induction by steps of one over [lo, hi) (for(v=lo; v<hi; ++v) and its equivalent spellings)" % node.get("l"))
        v = lf["vars"][lf["var"]]
        lo, hi = self.loc.resolve(lf["lo"]), self.loc.resolve(lf["hi"])
        if is_zero(lo):
            if hi.get("k") == "Ref" and hi.get("dk") == "param" and hi.get("n") == "rows":
                return v["d"], ROW
            if hi.get("k") == "Ref" and hi.get("dk") == "param" and hi.get("n") == "BlockHeight":
                return v["d"], I
            if hi.get("k") == "Ref" and hi.get("dk") == "param" and hi.get("n") == "BlockWidth":
                return v["d"], J
            if hi.get("k") == "Int" and self.tdims and self.tdims[0] != self.tdims[1]:
                if int(hi["v"]) == self.tdims[0]:
                    return v["d"], I
                if int(hi["v"]) == self.tdims[1]:
                    return v["d"], J
            try:
                hs = sympy.expand(self.isym(hi))        # e.g. the length `last - first` of a std::fill range
            except Unknown:
                hs = None
            if hs is not None and hs == BH:
                return v["d"], I
            if hs is not None and hs == BW:
                return v["d"], J
            if hs is not None and hs == sympy.Symbol("rows"):
                return v["d"], ROW
            raise Unknown("loop bound `%s` at line %s" % (render(hi), node.get("l")))
        # entry loop: [row_ptr[ROW], row_ptr[ROW+1])
        if "ROW" in env:
            def rp(n):
                # affine expression over the entries of row_ptr and integers
                n = self.loc.resolve(n)
                if n.get("k") == "Int":
                    return sympy.Integer(int(n["v"]))
                if n.get("k") == "Bin" and n.get("op") in ("+", "-"):
                    x, y = rp(n["lhs"]), rp(n["rhs"])
                    return x + y if n["op"] == "+" else x - y
                return self.cell(n)
            try:
                a, b = rp(lo), rp(hi)
            except Unknown:
                raise Unknown("loop range [%s, %s) at line %s" % (render(lo), render(hi), node.get("l")))
            if a == sympy.Symbol("row_ptr@ROW") and b == sympy.Symbol("row_ptr@ROW + 1"):
                return v["d"], K
            def show(e):
                e = sympy.sympify(e)
                return str(e.xreplace({y: sympy.Symbol("row_ptr[%s]" % str(y)[8:].replace(" ", "").lower()) for y in e.free_symbols if str(y).startswith("row_ptr@")}))
            raise Wrong("entry loop at line %s ranges over [%s, %s), expected [row_ptr[row], row_ptr[row+1])" % (node.get("l"), show(a), show(b)))
        raise Unknown("loop range at line %s" % node.get("l"))

    def leaves(self, node, env, out):
        for s in fuse_while(stmts(node)):
            if s.get("k") == "For":
                d, role = self.classify_for(s, env)
                if str(role) in env:
                    raise Unknown("nested %s loops" % role)
                self.role[d] = role
                e2 = dict(env)
                e2[str(role)] = s
                self.leaves(s["body"], e2, out)
            elif s.get("k") in ("While", "Do", "ForRange", "Switch"):
                raise Unknown("%s at line %s" % (s["k"], s.get("l")))
            else:
                out.append((s, dict(env)))


def analyse_matrix_kernel(ck, fn, struct):
    key = "%s::%s" % (struct, fn.name)
    inst = fn.full.split("::", 3)[-1]
    file = defile(fn)
    mk = MKernel(fn, struct)
    if mk.tdims and mk.tdims[0] == mk.tdims[1]:
        ck.ob("E2.matrix-kernel", key, True, "[%s] square template block: block-row and block-column loops are indistinguishable, decided on the rectangular instantiation" % inst, file, fn.line, trivial=True)
        return
    try:
        top = [s for s in fuse_while(stmts(fn.body)) if not (s.get("k") == "Decl")]
        # `if(rows == 0) return;` in front does what zero iterations of the row loop do
        top = [s for s in top if not (s.get("k") == "If" and s.get("else") is None and alias_value(s["c"], mk.loc, {}, [], size_name="rows") == EMPTY
                                      and [x.get("k") for x in stmts(s["then"])] == ["Return"])]
        problems = []
        cleared = None        # extent [0, cleared) of the output vector zeroed by a loop in front of the row loop
        def is_row_loop(F_):
            lf0 = loop_form(F_) if F_.get("k") == "For" else None
            if lf0 is None or lf0["others"] or lf0["down"] or lf0["hi_off"] or not is_zero(mk.loc.resolve(lf0["lo"])):
                return False
            h_ = mk.loc.resolve(lf0["hi"])
            return h_.get("k") == "Ref" and h_.get("dk") == "param" and h_.get("n") == "rows"
        # several loops over the rows in sequence (one kernel forwarding to its sibling plus a second pass, loop fission): rows are
        # independent - every statement addresses the row's own entries only (checked by cell()) - so they read as one fused loop
        n_lead = 0
        while n_lead < len(top) - 1 and not is_row_loop(top[n_lead]):
            n_lead += 1
        row_loops = top[n_lead:]
        if struct in ("Lumping", "RowNorm") and n_lead > 0 and all(x_.get("k") == "For" for x_ in top):
            outname = "lump" if struct == "Lumping" else "row_norms"
            for pre in top[:n_lead]:
                lf_ = loop_form(pre)
                body_ = stmts(pre.get("body"))
                if lf_ is None or lf_["others"] or lf_["down"] or lf_["hi_off"] or not is_zero(mk.loc.resolve(lf_["lo"])) or len(body_) != 1 or body_[0].get("k") != "Assign" or body_[0].get("op") != "=":
                    raise Unknown("loop at line %s in front of the row loop is not a clearing loop `for(t=0; t<n; ++t) %s[t] = 0`" % (pre.get("l"), outname))
                a_ = body_[0]
                l_ = strip(a_["lhs"])
                rz = mk.loc.resolve(a_["rhs"])
                pa_ = mk.ptr_off(l_["b"]) if l_.get("k") == "Index" else None
                if pa_ is None or mk.params.get(pa_[0]) != outname or pa_[1] != 0 or not (strip(l_["idx"]).get("k") == "Ref" and strip(l_["idx"]).get("d") == lf_["var"]) \
                        or not (is_zero(rz) or (rz.get("k") in ("Int", "Float") and float(rz["v"]) == 0)) or cleared is not None:
                    raise Unknown("loop at line %s in front of the row loop is not a clearing loop `for(t=0; t<n; ++t) %s[t] = 0`" % (pre.get("l"), outname))
                cleared = (sympy.expand(mk.isym(lf_["hi"])), pre.get("l"))
            top = row_loops
        if not top or not all(is_row_loop(x_) for x_ in top):
            raise Unknown("body is not a single loop over the rows (or a sequence of such loops)")
        out = []
        for F_ in top:
            mk.leaves(F_, {}, out)
        if "ROW" not in (out[0][1] if out else {}):
            raise Unknown("outer loop is not for(row=0; row<rows; ++row)")
        events = []       # (where, target, op, new, line)
        for s, env in out:
            if s.get("k") == "Decl":
                for v in s["vars"]:
                    if struct == "Diagonal" and v.get("init") is not None and "K" not in env and "ROW" in env and v["d"] in mk.loc.written and not v.get("ref"):
                        # `IT_ pos(no_diag); ... pos = col; ... diag[row] = pos;`: a local declared afresh in every row that carries the
                        # row's result - it stands for diag[row]; its initialiser is the default
                        mk.rowvars[v["d"]] = sympy.Symbol("diag")
                        events.append((env, sympy.Symbol("diag"), "=", mk.vsym(v["init"]), v.get("l")))
                        continue
                    if v.get("init") is not None and "K" not in env:
                        r = mk.loc.resolve(v["init"])
                        if is_zero(r) or (r.get("k") in ("Int", "Float") and float(r["v"]) == 0):
                            mk.acc.add(v["d"])
                            events.append((env, ACC, "=", sympy.Integer(0), v.get("l")))
                continue
            if s.get("k") == "If" and struct == "Diagonal":
                events.append((env, "if", s, None, s.get("l")))
                continue
            if s.get("k") == "If" and struct in ("Lumping", "RowNorm") and "K" not in env:
                # `if(c) { [stores]; continue; }` at row level: a path that ends the iteration early
                if s.get("else") is not None:
                    raise Unknown("row-level if/else at line %s" % s.get("l"))
                br = []
                mk.leaves(s["then"], env, br)
                if not br or br[-1][0].get("k") not in ("Continue", "Break", "Return") or any(x.get("k") in ("Continue", "Break", "Return") for x, _ in br[:-1]):
                    raise Unknown("row-level conditional at line %s does not end the iteration" % s.get("l"))
                stores = []
                for bs, benv in br[:-1]:
                    if bs.get("k") != "Assign":
                        raise Unknown("statement `%s` in the early-exit branch" % render(bs)[:60])
                    bt, brhs = mk.vsym(bs["lhs"]), mk.vsym(bs["rhs"])
                    stores.append((benv, bt, brhs if bs.get("op") == "=" else {"+=": bt + brhs, "-=": bt - brhs, "*=": bt * brhs}[bs["op"]]))
                ckind = "other"
                c = mk.loc.resolve(s["c"])
                if c.get("k") == "Bin" and c.get("op") == "==":
                    try:
                        sides = {str(mk.cell(mk.loc.resolve(c["lhs"]))), str(mk.cell(mk.loc.resolve(c["rhs"])))}
                        if sides == {"row_ptr@ROW", "row_ptr@ROW + 1"}:
                            ckind = "empty"
                    except (Unknown, Wrong):
                        pass
                events.append((env, "rowexit", {"cond": render(s["c"]), "ckind": ckind, "stores": stores, "how": br[-1][0]["k"]}, None, br[-1][0].get("l") or s.get("l")))
                continue
            if s.get("k") == "If" and struct in ("ScaleRows", "ScaleCols"):
                # `if(<factor> == c [&& r == a]) continue;`: the entries of this row / this entry are not written on that path
                if s.get("else") is not None or [x_.get("k") for x_ in stmts(s["then"])] != ["Continue"]:
                    raise Unknown("conditional at line %s is not `if(...) continue;`" % s.get("l"))
                conj = []

                def flat_(c_):
                    c_ = mk.loc.resolve(c_)
                    if c_.get("k") == "Bin" and c_.get("op") == "&&":
                        flat_(c_["lhs"]); flat_(c_["rhs"])
                    else:
                        conj.append(c_)
                flat_(s["c"])
                val_, inplace_ = None, False
                for c_ in conj:
                    ok_ = False
                    if c_.get("k") == "Bin" and c_.get("op") == "==":
                        l_, r_ = mk.loc.resolve(c_["lhs"]), mk.loc.resolve(c_["rhs"])
                        if l_.get("k") == "Ref" and r_.get("k") == "Ref" and {mk.params.get(l_.get("d")), mk.params.get(r_.get("d"))} == {"r", "a"}:
                            inplace_, ok_ = True, True
                        else:
                            for u_, w_ in ((l_, r_), (r_, l_)):
                                cv_ = const_value(mk.loc, w_)
                                if cv_ is not None and ok_ is False:
                                    try:
                                        if mk.vsym(u_) == sympy.Symbol("x"):
                                            val_, ok_ = cv_, True
                                    except Unknown:
                                        pass
                    if not ok_:
                        raise Unknown("condition `%s` (line %s) of the skipping branch is neither a test of the scaling factor against a constant nor of r == a" % (render(c_)[:50], s.get("l")))
                if val_ is None:
                    raise Unknown("skipping branch at line %s does not test the scaling factor" % s.get("l"))
                events.append((env, "skip", val_, inplace_, s.get("l")))
                continue
            if s.get("k") != "Assign":
                raise Unknown("statement `%s`" % render(s)[:60])
            t = mk.vsym(s["lhs"])
            rhs = mk.vsym(s["rhs"])
            op = s.get("op")
            new = rhs if op == "=" else {"+=": t + rhs, "-=": t - rhs, "*=": t * rhs}[op]
            events.append((env, t, op, new, s.get("l")))
        blk = ("I", "J") if mk.blocked else ()
        if struct in ("ScaleRows", "ScaleCols"):
            x = sympy.Symbol("x")
            for env_, _, val_, inplace_, line_ in [e for e in events if e[1] == "skip"]:
                if not inplace_:
                    problems.append("line %s: entries whose scaling factor equals %s are skipped: the kernel is also the out-of-place operation this <- a * x (r and a are separate arrays), where the skipped entries of the target r are never written and keep whatever r held before%s" % (
                        line_, val_, " (in place the shortcut would be right)" if val_ == 1 else "; in place they would have to become a*%s" % val_))
                elif val_ != 1:
                    problems.append("line %s: in-place entries whose factor equals %s are left unchanged instead of being multiplied by it" % (line_, val_))
            ev = [e for e in events if e[1] not in ("if", "skip")]
            if len(ev) != 1:
                raise Unknown("%d updates" % len(ev))
            env, t, op, new, line = ev[0]
            if t != sympy.Symbol("r") or "K" not in env or any(b not in env for b in blk):
                problems.append("the update of `%s` is not inside the full entry (and block) loops" % t)
            if sympy.expand(new - sympy.Symbol("a") * x) != 0:
                problems.append("computes r <- %s, documented: a * x" % new)
            detail = "r[entry] <- a[entry] * x[%s] over rows x [row_ptr[row],row_ptr[row+1])%s" % ("row" if struct == "ScaleRows" else "col_ind[entry]", " x block" if mk.blocked else "")
        elif struct in ("Lumping", "RowNorm"):
            outp = sympy.Symbol("lump" if struct == "Lumping" else "row_norms")
            val = sympy.Symbol("val")
            term = val if struct == "Lumping" else (sympy.Symbol("scal") * val ** 2 if "scaled" in fn.name else val ** 2)
            want_sqrt = struct == "RowNorm" and fn.name.endswith("norm2")
            state = {}        # symbolic per-row value of acc / out in terms of S = sum of terms
            S = sympy.Symbol("SUM")
            rowdef = False
            if cleared is not None:
                need = sympy.expand(sympy.Symbol("rows") * BH) if mk.blocked else sympy.Symbol("rows")
                if cleared[0] == need:
                    state[outp] = sympy.Integer(0)       # every entry the rows accumulate into starts from 0 (no row reads another row's entry)
                    rowdef = True
                else:
                    problems.append("line %s: the clearing loop in front of the row loop zeroes %s[0 .. %s) but the rows accumulate (+=) into %s[0 .. %s): the entries beyond %s are accumulated onto whatever the output vector held before the call (second and later calls, re-used or uninitialised vectors)" % (
                        cleared[1], outp, cleared[0], outp, need, cleared[0]))
                    state[outp] = sympy.Integer(0)
                    rowdef = True
            for env, t, op, new, line in events:
                inK = "K" in env
                if isinstance(t, str) and t == "rowexit":
                    info = op
                    st2 = dict(state)
                    for benv, bt, bnew in info["stores"]:
                        if mk.blocked and bt == outp and "I" not in benv:
                            problems.append("line %s: per-row result written outside the block-row loop" % line)
                        st2[bt] = bnew.subs({k_: v_ for k_, v_ in st2.items()}, simultaneous=True) if st2 else bnew
                    if info["how"] != "Continue":
                        problems.append("line %s: `%s` under `%s` leaves the row loop: all later rows keep the values of an earlier call" % (line, info["how"].lower(), info["cond"]))
                    elif st2.get(outp) is None:
                        problems.append("line %s: rows for which `%s` holds end their iteration before %s[row] is stored: the kernel is the only writer of the output, so these rows keep whatever the vector held before (dense definition for %s: %s)" % (
                            line, info["cond"], outp, "a row without entries" if info["ckind"] == "empty" else "such a row", "0" if info["ckind"] == "empty" else "the row sum"))
                    elif info["ckind"] == "empty":
                        fin0 = st2[outp].subs(S, 0).replace(f_sqrt, lambda a_: sympy.Integer(0) if a_ == 0 else f_sqrt(a_))
                        if sympy.simplify(fin0) != 0:
                            problems.append("line %s: rows without entries receive %s, dense definition: 0" % (line, fin0))
                    else:
                        raise Unknown("early `continue` under `%s` (line %s) stores %s; whether that is the row's result is not decidable here" % (info["cond"], line, st2.get(outp)))
                    continue
                if t not in (ACC, outp):
                    problems.append("line %s writes %s" % (line, t))
                    continue
                if inK:
                    d = sympy.expand(new - t)
                    if d.has(t):
                        problems.append("line %s: `%s <- %s` inside the entry loop is not an accumulation (a per-row finalisation executed once per entry)" % (line, t, new))
                        continue
                    if any(b not in env for b in blk):
                        problems.append("line %s: accumulation outside the block loops" % line)
                    if sympy.expand(d - term) != 0:
                        problems.append("line %s: accumulates %s per entry, documented term: %s" % (line, d, term))
                    if t not in state:
                        problems.append("line %s: %s accumulated without a per-row start value" % (line, t))
                    else:
                        state[t] = state[t] + S
                else:
                    if mk.blocked and t == outp and "I" not in env:
                        problems.append("line %s: per-row result written outside the block-row loop" % line)
                    val_new = new.subs({k_: v_ for k_, v_ in state.items()}, simultaneous=True) if state else new
                    state[t] = val_new
                    if t == outp:
                        rowdef = True
            final = state.get(outp)
            want = f_sqrt(S) if want_sqrt else S
            if not rowdef:
                problems.append("the per-row result is only written inside the entry loop: rows without entries keep stale values")
            if final is None or sympy.simplify(final - want) != 0:
                problems.append("per-row result is %s, documented: %s with SUM = sum over the row's entries of %s" % (final, want, term))
            detail = "%s[row] = %s, SUM over [row_ptr[row],row_ptr[row+1]) of %s; defined for empty rows" % (outp, want, term)
        else:   # Diagonal
            diag = sympy.Symbol("diag")
            default = [e for e in events if e[1] == diag and "K" not in e[0]]
            if mk.rowvars:
                # the store-back `diag[row] = pos` must exist, once, behind the search
                back = [e for e in default if e[3] == diag]
                default = [e for e in default if e[3] != diag]
                srch = [k_ for k_, e in enumerate(events) if e[1] == "if"]
                if len(back) != 1 or not srch or events.index(back[0]) < srch[-1]:
                    problems.append("the per-row result local is not stored to diag[row] exactly once behind the search (%d stores)" % len(back))
            ifs = [e for e in events if e[1] == "if"]
            if len(default) != 1 or str(default[0][3]) != "row_ptr@rows":
                problems.append("rows without a diagonal entry must receive row_ptr[rows] (= used_elements) before the search; found %s" % [str(e[3]) for e in default])
            if len(ifs) != 1 or "K" not in ifs[0][0]:
                raise Unknown("no search conditional in the entry loop")
            ifn = ifs[0][2]
            # every store of diag[row] in the search is guarded by equality of row and column on its path
            hits = []
            def descend(node, rels):
                for st_ in stmts(node):
                    if st_.get("k") == "If":
                        cc = mk.loc.resolve(st_["c"])
                        pol = True
                        while cc.get("k") == "Un" and cc.get("op") == "!":
                            cc = mk.loc.resolve(cc["e"])
                            pol = not pol
                        if not (cc.get("k") == "Bin" and cc.get("op") in ("==", "!=", "<", ">", "<=", ">=")):
                            raise Unknown("search condition `%s`" % render(st_["c"]))
                        l_, r_ = str(mk.isym(cc["lhs"])), str(mk.isym(cc["rhs"]))
                        if {l_, r_} != {"ROW", "COL"}:
                            raise Wrong("the diagonal search compares %s with %s, expected the row with col_ind[entry]" % (l_, r_))
                        op_ = cc["op"] if l_ == "ROW" else {"<": ">", ">": "<", "<=": ">=", ">=": "<=", "==": "==", "!=": "!="}[cc["op"]]
                        neg_ = {"<": ">=", ">": "<=", "<=": ">", ">=": "<", "==": "!=", "!=": "=="}[op_]
                        descend(st_["then"], rels | {op_ if pol else neg_})
                        if st_.get("else") is not None:
                            descend(st_["else"], rels | {neg_ if pol else op_})
                    elif st_.get("k") == "Assign":
                        hits.append((st_, set(rels)))
                    elif st_.get("k") in ("Break", "Continue"):
                        pass
                    else:
                        raise Unknown("statement `%s` in the diagonal search" % render(st_)[:60])
            descend(ifn, set())
            if not hits:
                raise Unknown("the search stores nothing")
            for st_, rels in hits:
                if mk.vsym(st_["lhs"]) != diag or str(mk.isym(st_["rhs"])) != "K":
                    problems.append("line %s: on a hit diag[row] must receive the entry index" % st_.get("l"))
                if not ("==" in rels or {"<=", ">="} <= rels):
                    problems.append("line %s: diag[row] receives the entry index on a path where only row %s col_ind[entry] is known, not equality: a row without a diagonal entry gets the position of an off-diagonal entry (e.g. its first entry right of the diagonal) instead of the 'not found' marker" % (
                        st_.get("l"), " and ".join(sorted(rels)) or "(nothing)"))
            detail = "diag[row] <- row_ptr[rows]; first entry with col_ind[entry]==row overwrites it"
        ck.ob("E2.matrix-kernel", key, not problems, "[%s] " % inst + ("; ".join(problems) if problems else detail), file, fn.line,
              sample={"instantiation": inst, "events": [(str(e[1]), e[2] if isinstance(e[2], str) else "cond", str(e[3])) for e in events if e[1] != "skip"][:6]})
    except Wrong as e:
        ck.ob("E2.matrix-kernel", key, False, "[%s] %s" % (inst, e), file, fn.line)
    except Unknown as e:
        ck.incomplete("E2.matrix-kernel", "%s [%s]: %s" % (key, inst, e))


# -------------------------------------------------------------------------------------------------
# E2.dense-product: r <- alpha * X*Y + beta * z  (ProductMatMat::dense_generic / dsd_generic)
# -------------------------------------------------------------------------------------------------
def analyse_product_kernel(ck, fn):
    """ProductMatMat::dense_generic / dsd_generic: loops over [0,rows) x [0,columns) with a per-element sum over the inner
    dimension (dense: [0,inner); dsd: the entries of row i of the sparse factor), row-major addresses of every array, and
    - for every admissible aliasing of the output with the summand (r == z; the sparse-dense form reads r itself) and every path
    through tests of the scalars - the net effect r_ij <- beta * z_ij(old) + alpha * sum.  Statements compose in program
    order, so a read of the summand after the output element was written sees the new value when both are the same array."""
    name = fn.name
    key0 = "ProductMatMat::%s" % name
    inst = fn.full.split("::", 3)[-1]
    file = defile(fn)
    loc = Locals(fn)
    params = {p["d"]: p["n"] for p in fn.params}
    ptr = {p["d"] for p in fn.params if "*" in fn.type(p["t"])}
    scalars = {p["d"]: p["n"] for p in fn.params if p["n"] in ("alpha", "beta")}
    dsd = "val" in params.values()
    Isym, Jsym, Ksym, Tsym, COLT = sympy.symbols("I J K T COLT")
    ROWS, COLS, INNER = sympy.symbols("rows columns inner")
    role = {}           # loop variable decl id -> symbol
    SUM = sympy.Symbol("SUM")
    acc = {}            # decl id of the per-element sum -> Var

    def isym(n):
        n = loc.resolve(n)
        k = n.get("k")
        if k == "Int":
            return sympy.Integer(int(n["v"]))
        if k == "Ref":
            d = n.get("d")
            if d in role:
                return role[d]
            if d in params and params[d] in ("rows", "columns", "inner"):
                return {"rows": ROWS, "columns": COLS, "inner": INNER}[params[d]]
            raise Unknown("index term `%s` (line %s)" % (render(n), n.get("l")))
        if k == "Bin" and n.get("op") in ("+", "*", "-"):
            a, b = isym(n["lhs"]), isym(n["rhs"])
            return a + b if n["op"] == "+" else (a - b if n["op"] == "-" else a * b)
        if k == "Index":
            b = loc.resolve(n["b"])
            if b.get("k") == "Ref" and params.get(b.get("d")) == "col_ind":
                if sympy.expand(isym(n["idx"]) - Tsym) == 0:
                    return COLT
                raise Wrong("col_ind subscripted by `%s` (line %s), expected the entry index of the current row" % (render(n["idx"]), n.get("l")))
            if b.get("k") == "Ref" and params.get(b.get("d")) == "row_ptr":
                a = sympy.expand(isym(n["idx"]) - Isym)
                if a == 0:
                    return sympy.Symbol("RP0")
                if a == 1:
                    return sympy.Symbol("RP1")
                raise Wrong("row_ptr subscripted by `%s` (line %s)" % (render(n["idx"]), n.get("l")))
        raise Unknown("index term `%s` (%s, line %s)" % (render(n)[:50], k, n.get("l")))

    WANT = {"r": Isym * COLS + Jsym, "z": Isym * COLS + Jsym, "x": Isym * INNER + Ksym, "val": Tsym,
            "y": (COLT if dsd else Ksym) * COLS + Jsym}

    lets = {}           # decl id of an element-level snapshot local -> symbol

    def vsym_nolet(n):
        return vsym(n)

    def vsym(n):
        n = strip(n)
        k = n.get("k")
        if k == "Int":
            return sympy.Integer(int(n["v"]))
        if k == "Float":
            return sympy.Rational(str(n.get("text") or n["v"]).rstrip("fFlL"))
        if k == "Ref":
            d = n.get("d")
            if d in acc:
                return SUM
            if d in lets:
                return lets[d]
            if d in scalars:
                return sympy.Symbol(scalars[d])
            r = loc.resolve(n)
            if r is not n and r.get("k") != "Ref":
                return vsym(r)
            raise Unknown("value `%s` (line %s)" % (render(n), n.get("l")))
        if k == "Index":
            b = loc.resolve(n["b"])
            if not (b.get("k") == "Ref" and b.get("d") in ptr):
                raise Unknown("array `%s` (line %s)" % (render(n["b"]), n.get("l")))
            nm = params[b["d"]]
            if nm not in WANT:
                raise Unknown("array parameter `%s` has no role in the product" % nm)
            addr = isym(n["idx"])
            if sympy.expand(addr - WANT[nm]) != 0:
                raise Wrong("array `%s` is subscripted by %s (line %s); row-major storage of the %s needs %s" % (
                    nm, sympy.expand(addr), n.get("l"), {"r": "rows x columns result", "z": "rows x columns summand", "x": "rows x inner left factor",
                                                          "y": "inner x columns right factor", "val": "sparse left factor"}[nm], WANT[nm]))
            return sympy.Symbol(nm)
        if k == "Bin" and n.get("op") in ("+", "-", "*", "/"):
            a, b = vsym(n["lhs"]), vsym(n["rhs"])
            return {"+": a + b, "-": a - b, "*": a * b, "/": a / b}[n["op"]]
        if k == "Un" and n.get("op") == "-":
            return -vsym(n["e"])
        raise Unknown("expression `%s` (%s, line %s)" % (render(n)[:60], k, n.get("l")))

    def classify(node, env):
        lf = loop_form(node)
        if lf is None or lf["others"] or lf["down"] or lf["hi_off"]:
            raise Unknown("loop at line %s is not an induction by steps of one over [lo, hi)" % node.get("l"))
        lo, hi = loc.resolve(lf["lo"]), loc.resolve(lf["hi"])
        if is_zero(lo) and hi.get("k") == "Ref" and hi.get("dk") == "param" and hi.get("n") in ("rows", "columns", "inner"):
            return lf["var"], {"rows": Isym, "columns": Jsym, "inner": Ksym}[hi["n"]]
        if "I" in env:
            a, b = isym(lo), isym(hi)
            if a == sympy.Symbol("RP0") and b == sympy.Symbol("RP1"):
                return lf["var"], Tsym
            raise Wrong("inner loop at line %s ranges over [%s, %s), expected the entries [row_ptr[i], row_ptr[i+1]) of row i" % (node.get("l"), render(lo), render(hi)))
        raise Unknown("loop range at line %s" % node.get("l"))

    events = []         # (env, position, statement)

    def leaves(node, env):
        for s in fuse_while(stmts(node)):
            if s.get("k") == "For":
                d, sym = classify(s, env)
                if str(sym) in env:
                    raise Unknown("nested %s loops" % sym)
                role[d] = sym
                e2 = dict(env)
                e2[str(sym)] = s
                leaves(s["body"], e2)
            elif s.get("k") in ("While", "Do", "ForRange", "Switch"):
                raise Unknown("%s at line %s" % (s["k"], s.get("l")))
            else:
                events.append((dict(env), len(events), s))

    try:
        top = [s for s in fuse_while(stmts(fn.body)) if s.get("k") != "Decl"]
        if len(top) != 1 or top[0].get("k") != "For":
            raise Unknown("body is not a single loop nest")
        leaves(top[0], {})
        inner_sym = "T" if dsd else "K"
        problems = []
        elem = []           # element-level statements behind the inner loop
        seen_inner = False
        for env, pos, s in events:
            full = "I" in env and "J" in env
            if s.get("k") == "Decl":
                if full and inner_sym not in env and seen_inner and any(v["d"] not in loc.written and v.get("init") is not None and not v.get("ref") and
                                                                      any(y.get("k") == "Index" for y in walk(v["init"])) for v in s["vars"]):
                    elem.append(s)          # `const DT_ zij = z[idx];` behind the inner loop: a snapshot of the array element
                    continue
                for v in s["vars"]:
                    if v["d"] in loc.written or v.get("init") is None:
                        if not full or inner_sym in env:
                            raise Unknown("local `%s` (line %s) is written but not declared per result element" % (v["n"], v.get("l")))
                        if v.get("init") is None or not (is_zero(loc.resolve(v["init"])) or (loc.resolve(v["init"]).get("k") == "Float" and float(loc.resolve(v["init"])["v"]) == 0)):
                            problems.append("line %s: the per-element sum `%s` does not start from 0" % (v.get("l"), v["n"]))
                        acc[v["d"]] = v
                continue
            if inner_sym in env:
                if not full:
                    raise Unknown("statement `%s` inside the inner loop but not inside both result loops" % render(s)[:60])
                seen_inner = True
                if s.get("k") != "Assign" or strip(s["lhs"]).get("d") not in acc:
                    raise Unknown("statement `%s` in the inner loop is not an update of the per-element sum" % render(s)[:60])
                rhs = vsym(s["rhs"])
                new = rhs if s.get("op") == "=" else {"+=": SUM + rhs, "-=": SUM - rhs}.get(s["op"])
                if new is None:
                    raise Unknown("operator %s on the sum" % s.get("op"))
                term = sympy.expand(new - SUM)
                want = sympy.Symbol("val" if dsd else "x") * sympy.Symbol("y")
                if term.has(SUM):
                    problems.append("line %s: the sum is not only accumulated (new value %s)" % (s.get("l"), new))
                elif sympy.expand(term - want) != 0:
                    problems.append("line %s: accumulates %s per inner index, the product needs %s" % (s.get("l"), term, want))
                continue
            if not full:
                raise Unknown("statement `%s` outside the result loops" % render(s)[:60])
            if not seen_inner:
                raise Unknown("statement `%s` in front of the inner loop" % render(s)[:60])
            elem.append(s)
        if len(acc) != 1:
            raise Unknown("%d per-element accumulators" % len(acc))

        # paths through the element statements: [(guards, [(target, new)])]
        def paths(sts, guards, ups):
            if not sts:
                return [(guards, ups)]
            s, rest = sts[0], sts[1:]
            if s.get("k") == "If":
                g = scalar_guard(s["c"], loc, scalars)
                if g is None:
                    raise Unknown("condition `%s` (line %s) is not a test of the scalars alpha / beta" % (render(s["c"])[:60], s.get("l")))
                out = []
                out += paths(stmts(s["then"]) + rest, guards + [(g, True, s["c"])], list(ups))
                out += paths((stmts(s["else"]) if s.get("else") is not None else []) + rest, guards + [(g, False, s["c"])], list(ups))
                return out
            if s.get("k") == "Decl":
                more = []
                for v in s["vars"]:
                    if v["d"] not in loc.written and v.get("init") is not None and not v.get("ref") and any(y.get("k") == "Index" for y in walk(v["init"])):
                        lets[v["d"]] = sympy.Symbol("LET%d" % v["d"])      # a copy: snapshot (a reference is an alias and is resolved at its uses)
                        more.append((lets[v["d"]], vsym_nolet(v["init"]), v.get("l")))
                return paths(rest, guards, ups + more)
            if s.get("k") != "Assign":
                raise Unknown("statement `%s` (line %s)" % (render(s)[:60], s.get("l")))
            t = vsym(s["lhs"])
            rhs = vsym(s["rhs"])
            new = rhs if s.get("op") == "=" else {"+=": t + rhs, "-=": t - rhs, "*=": t * rhs}.get(s["op"])
            if new is None:
                raise Unknown("operator %s" % s.get("op"))
            return paths(rest, guards, ups + [(t, new, s.get("l"))])
        plist = paths(elem, [], [])
        r_, z_ = sympy.Symbol("r"), sympy.Symbol("z")
        alpha, beta = sympy.Symbol("alpha"), sympy.Symbol("beta")
        summand = r_ if dsd else z_
        definition = beta * summand + alpha * SUM
        pats = [("general", {})] + ([] if dsd else [("r==z", {z_: r_})])
        for label, sub in pats:
            key = "%s/%s" % (key0, label)
            bad = list(problems)
            for guards, ups in plist:
                point = {sympy.Symbol(g[1]): g[2] for g, pol, _ in guards if g[0] in ("eq", "ne") and (g[0] == "eq") == pol}
                gtext = " && ".join(("" if pol else "!") + render(c) for _, pol, c in guards)
                state = {}
                for t, new, ln in ups:
                    t2 = t.subs(sub, simultaneous=True)
                    e2 = new.subs(sub, simultaneous=True)
                    if state:
                        e2 = e2.subs(state, simultaneous=True)
                    state[t2] = e2
                where = (" on the path `%s`" % gtext) if gtext else ""
                letsyms = set(lets.values())
                if set(state) - {r_} - letsyms:
                    bad.append("the element statements write %s%s" % (sorted(map(str, set(state) - {r_} - letsyms)), where))
                    continue
                got = state.get(r_, r_).subs(point, simultaneous=True)
                want = definition.subs(sub, simultaneous=True).subs(point, simultaneous=True)
                if sympy.expand(got - want) != 0:
                    bad.append("%s%s the element receives %s; the formula r <- beta*%s + alpha*sum gives %s%s" % (
                        ("with the summand aliasing the output (r == z: the in-place update C <- alpha*A*B + beta*C) " if sub else ""), where.strip() or "",
                        sympy.expand(got), "z" if not dsd else "r", sympy.expand(want),
                        " - a statement reads the summand after the output element was overwritten" if sub and len(ups) > 1 else ""))
            ck.ob("E2.dense-product", key, not bad,
                  "[%s] " % inst + ("; ".join(bad) if bad else "loops over rows x columns, per-element sum over %s of %s*y from 0, row-major addresses, net effect r <- beta*%s + alpha*sum on %d path(s)%s" % (
                      "the entries of row i" if dsd else "[0,inner)", "val" if dsd else "x", "r" if dsd else "z", len(plist), " also when z is r" if sub else "")),
                  file, (elem[0].get("l") if elem else fn.line), sample={"instantiation": inst, "paths": len(plist)})
    except Wrong as e:
        ck.ob("E2.dense-product", "%s/general" % key0, False, "[%s] %s" % (inst, e), file, fn.line)
    except Unknown as e:
        ck.incomplete("E2.dense-product", "%s [%s]: %s" % (key0, inst, e))


def check_product_site(ck, fn, call):
    """DenseMatrix::multiply -> Arch::ProductMatMat::dense / dsd: the output slot carries the receiver, the factor slots the
    factor operands in order, the summand slot the summand operand (or the receiver when the operation has none), the
    extents are rows/columns of the receiver and the inner dimension columns(x) (= rows(y) by the function's XASSERT)"""
    loc = Locals(fn)
    sig = "(%s)" % ",".join(p["n"] for p in fn.params)
    key = "%s::%s%s/ProductMatMat::%s" % (short(fn.cls), fn.name, sig, call["callee"].rsplit("::", 1)[-1])
    pn, args = call.get("pn", []), call.get("a", [])
    if len(pn) != len(args):
        ck.incomplete("E1.slots", "%s: %d arguments for %d parameters" % (key, len(args), len(pn)))
        return
    mats = [p["n"] for p in fn.params if "Matrix" in fn.type(p["t"])]
    scal = [p["n"] for p in fn.params if "Matrix" not in fn.type(p["t"])]
    problems = []
    eq_inner = set()
    for cond, _ in assertions(fn):
        c = strip(cond)
        if c.get("k") == "Bin" and c.get("op") == "==":
            l, r = accessor(loc, c["lhs"]), accessor(loc, c["rhs"])
            if l and r:
                eq_inner.add(frozenset([(l["obj"], l["name"]), (r["obj"], r["name"])]))
    for slot, a in zip(pn, args):
        acc = accessor(loc, a)
        want = None
        if slot == "r":
            want = [("this", "elements")]
        elif slot == "x":
            want = [(mats[0], "elements")] if mats else None
        elif slot in ("val", "col_ind", "row_ptr", "used_elements"):
            want = [(mats[0], slot)] if mats else None
        elif slot == "y":
            want = [(mats[1], "elements")] if len(mats) > 1 else None
        elif slot == "z":
            want = [(mats[2], "elements")] if len(mats) > 2 else [("this", "elements")]
        elif slot == "rows":
            want = [("this", "rows")] + ([(mats[0], "rows")] if mats and frozenset([("this", "rows"), (mats[0], "rows")]) in eq_inner else [])
        elif slot == "columns":
            want = [("this", "columns")] + ([(mats[1], "columns")] if len(mats) > 1 and frozenset([("this", "columns"), (mats[1], "columns")]) in eq_inner else [])
        elif slot == "inner":
            want = [(mats[0], "columns")] + ([(mats[1], "rows")] if len(mats) > 1 and frozenset([(mats[0], "columns"), (mats[1], "rows")]) in eq_inner else []) if mats else None
        elif slot in ("alpha", "beta"):
            v = loc.resolve(a)
            if v.get("k") == "Ref" and v.get("dk") == "param":
                if v.get("n") != slot:
                    problems.append("scalar slot %s receives the parameter `%s`" % (slot, v.get("n")))
            elif slot in scal:
                problems.append("scalar slot %s receives `%s`, not the parameter %s of the operation" % (slot, render(a)[:40], slot))
            else:
                cv = const_value(loc, a)
                neutral = 1 if slot == "alpha" else 0
                if cv is None:
                    ck.incomplete("E1.slots", "%s: scalar slot %s receives `%s`" % (key, slot, render(a)[:60]))
                    return
                if cv != neutral:
                    problems.append("the operation has no parameter %s (this <- x*y) but the kernel receives %s = %s instead of %d" % (slot, slot, cv, neutral))
            continue
        if want is None:
            ck.incomplete("E1.slots", "%s: slot %s has no role / operand" % (key, slot))
            return
        if acc is None:
            ck.incomplete("E1.slots", "%s: slot %s receives `%s`, which is not an accessor call the rule models" % (key, slot, render(a)[:80]))
            return
        if (acc["obj"], acc["name"]) not in want:
            problems.append("slot %s receives %s.%s(), expected %s" % (slot, acc["obj"], acc["name"], " or ".join("%s.%s()" % w for w in want)))
    ck.ob("E1.slots", key, not problems, "; ".join(problems) if problems else "slots %s <- %s" % (pn, [render(a) for a in args]),
          fn.file, call.get("l"), sample={"callee_params": pn, "args": [render(a) for a in args]})


# -------------------------------------------------------------------------------------------------
# merge loops: kinds (E2) and path rule (E7)
# -------------------------------------------------------------------------------------------------
DIMKIND = {"rows": "Row", "columns": "Col", "size": "Dim", "used_elements": "NZ"}


class UF:
    def __init__(self):
        self.p = {}

    def find(self, a):
        self.p.setdefault(a, a)
        while self.p[a] != a:
            self.p[a] = self.p[self.p[a]]
            a = self.p[a]
        return a

    def union(self, a, b):
        self.p[self.find(a)] = self.find(b)

    def same(self, a, b):
        return self.find(a) == self.find(b)


def fmt_kind(k):
    return "%s(%s)" % k if k else "?"


def merge_kinds(ck, fn, sig):
    """index kinds of every subscript in a merge product (helpers the product calls are inlined: their parameters denote
    the caller's arguments); equalities only from the function's XASSERTs"""
    loc = Locals(fn)
    uf = UF()
    for cond, _ in assertions(fn):
        c = strip(cond)
        if c.get("k") == "Bin" and c.get("op") == "==":
            l, r = accessor(loc, c["lhs"]), accessor(loc, c["rhs"])
            if l and r and l["name"] in DIMKIND and r["name"] in DIMKIND:
                uf.union((DIMKIND[l["name"]], l["obj"]), (DIMKIND[r["name"]], r["obj"]))
    root = Frame(fn)
    frames = list(root.frames())
    loopvar = {}      # (frame uid, decl id) -> For node
    for fr in frames:
        for n in fr.fn.nodes():
            if n.get("k") == "For" and n.get("init") and n["init"].get("k") == "Decl":
                for v in n["init"]["vars"]:
                    loopvar[(fr.uid, v["d"])] = n
    memo = {}
    records = {}      # array key -> [(ok, text, line)]
    keybase = "%s::%s%s" % (short(fn.cls), fn.name, sig)

    def rec(arr, ok, text, line):
        records.setdefault(arr, []).append((ok, text, line))

    def array_of(n, fr):
        a = fr.accessor(n)
        if a and a["name"] in ("row_ptr", "col_ind", "val", "elements"):
            return a
        return None

    def kind(n, fr, depth=0):
        """kind of an integer expression (or None for non-index values)"""
        if depth > 40:
            raise Unknown("kind recursion")
        n = strip(n)
        k = n.get("k")
        if k == "Ref" and n.get("dk") == "local":
            d = n.get("d")
            if (fr.uid, d) in memo:
                return memo[(fr.uid, d)]
            v = fr.loc.var.get(d)
            if v is None or v.get("init") is None:
                raise Unknown("local `%s` without initialiser" % n.get("n"))
            init = strip(v["init"])
            if is_zero(init) and (fr.uid, d) in loopvar:
                c = strip(loopvar[(fr.uid, d)]["c"])
                if c.get("k") == "Bin" and c.get("op") in ("<", "!="):
                    a = fr.accessor(c["rhs"])
                    if a and a["name"] in DIMKIND:
                        memo[(fr.uid, d)] = (DIMKIND[a["name"]], a["obj"])
                        return memo[(fr.uid, d)]
                raise Unknown("bound of loop variable `%s`" % n.get("n"))
            memo[(fr.uid, d)] = kind(init, fr, depth + 1)
            return memo[(fr.uid, d)]
        if k == "Ref" and n.get("dk") == "param" and n.get("d") in fr.bind:
            # parameter of an inlined helper: the kind of the caller's argument (increments keep the kind)
            a, f2 = fr.bind[n["d"]]
            return kind(a, f2, depth + 1)
        if k == "Index":
            arr = array_of(n["b"], fr)
            if arr is None:
                raise Unknown("array `%s`" % render(n["b"]))
            akey = "%s.%s" % (arr["obj"], arr["name"])
            idx = strip(n["idx"])
            plus1 = False
            if idx.get("k") == "Bin" and idx.get("op") == "+" and strip(idx["rhs"]).get("k") == "Int" and int(strip(idx["rhs"])["v"]) == 1:
                plus1 = True
                idx = strip(idx["lhs"])
            ik = kind(idx, fr, depth + 1)
            if ik is None:
                raise Unknown("index `%s` of %s has no index kind the rule can derive (line %s)" % (render(idx), akey, n.get("l")))
            need = {"row_ptr": ("Row", arr["obj"]), "col_ind": ("NZ", arr["obj"]), "val": ("NZ", arr["obj"]), "elements": ("Dim", arr["obj"])}[arr["name"]]
            ok = ik is not None and uf.same(ik, need) and (not plus1 or arr["name"] == "row_ptr")
            rec(akey, ok, "%s[%s%s]: index kind %s, array needs %s%s" % (akey, render(idx), "+1" if plus1 else "", fmt_kind(ik), fmt_kind(need),
                                                                     "" if ok else " -- no XASSERT of the function makes these dimensions equal"), n.get("l"))
            return {"row_ptr": ("NZ", arr["obj"]), "col_ind": ("Col", arr["obj"])}.get(arr["name"])
        return None

    def canon(n, fr, depth=0):
        """rendering of an index expression that is comparable across frames"""
        n, fr = fr.resolve(n)
        if n is None or depth > 12:
            return "?"
        if n.get("k") == "Ref":
            return "v%s:%s" % (fr.uid, n.get("d")) if n.get("dk") in ("local", "param") else render(n)
        if n.get("k") == "Bin":
            return "(%s%s%s)" % (canon(n["lhs"], fr, depth + 1), n.get("op"), canon(n["rhs"], fr, depth + 1))
        if n.get("k") == "Index":
            return "%s[%s]" % (canon(n["b"], fr, depth + 1), canon(n["idx"], fr, depth + 1))
        return render(n)

    try:
        for fr in frames:
            for n in fr.fn.nodes():
                if n.get("k") == "Index":
                    kind(n, fr)
        # comparisons between index-valued expressions
        for fr in frames:
            for n in fr.fn.nodes():
                if n.get("k") == "Bin" and n.get("op") in ("==", "<", ">", "<=", ">=", "!="):
                    try:
                        a, b = kind(n["lhs"], fr), kind(n["rhs"], fr)
                    except Unknown:
                        continue
                    if a and b:
                        ok = uf.same(a, b)
                        rec("compare", ok, "`%s` compares %s with %s%s" % (render(n)[:60], fmt_kind(a), fmt_kind(b), "" if ok else " -- different index spaces"), n.get("l"))
        # cursor segments: a variable that starts at P[e] may only be compared against P[e+1]
        starts = {}       # (frame uid, decl id) -> (accessor, canonical segment index, name)
        for fr in frames:
            for d, v in fr.loc.var.items():
                if v.get("init") is not None and strip(v["init"]).get("k") == "Index":
                    init = strip(v["init"])
                    arr = array_of(init["b"], fr)
                    if arr and arr["name"] == "row_ptr":
                        starts[(fr.uid, d)] = (arr, canon(init["idx"], fr), v["n"], render(strip(init["idx"])))
            for p in fr.fn.params:
                if p["d"] in fr.bind and p["d"] in fr.loc.written:
                    a0, f0 = fr.bind[p["d"]]
                    m0, f1 = f0.resolve(a0)
                    if m0 is not None and m0.get("k") == "Index":
                        arr = array_of(m0["b"], f1)
                        if arr and arr["name"] == "row_ptr":
                            starts[(fr.uid, p["d"])] = (arr, canon(m0["idx"], f1), p["n"], render(strip(m0["idx"])))
        for fr in frames:
            for n in fr.fn.nodes():
                if n.get("k") == "Bin" and n.get("op") in ("<", ">=", ">", "<=", "!=", "=="):
                    l, r = strip(n["lhs"]), strip(n["rhs"])
                    if not (l.get("k") == "Ref" and (fr.uid, l.get("d")) in starts):
                        l, r = r, l
                    if not (l.get("k") == "Ref" and (fr.uid, l.get("d")) in starts):
                        continue
                    arr, seg, vname, segtext = starts[(fr.uid, l["d"])]
                    rr, f2 = fr.resolve(r)
                    if rr is None or rr.get("k") != "Index":
                        continue
                    arr2 = array_of(rr["b"], f2)
                    if arr2 is None:
                        continue
                    ri = strip(rr["idx"])
                    okseg = (arr2["obj"] == arr["obj"] and arr2["name"] == "row_ptr" and ri.get("k") == "Bin" and ri.get("op") == "+"
                             and canon(ri["lhs"], f2) == seg and strip(ri["rhs"]).get("k") == "Int" and int(strip(ri["rhs"])["v"]) == 1)
                    akey = "%s.%s" % (arr["obj"], arr["name"])
                    rec(akey, bool(okseg), "cursor `%s` starts at %s[%s] and is bounded by `%s`%s" % (vname, akey, segtext, render(rr), "" if okseg else " -- not the end of the same segment"), n.get("l"))
    except Unknown as e:
        ck.incomplete("E2.merge-kinds", "%s: %s" % (keybase, e))
        return
    for arr, rs in sorted(records.items()):
        bad = [r for r in rs if not r[0]]
        ck.ob("E2.merge-kinds", "%s/%s" % (keybase, arr), not bad,
              "; ".join("line %s: %s" % (r[2], r[1]) for r in bad) if bad else "%d uses, e.g. %s" % (len(rs), rs[0][1]),
              fn.file, (bad or rs)[0][2], sample={"uses": [r[1] for r in rs][:4]})


def merge_paths(ck, fn, sig):
    """E7 no-silent-drop, decided by path enumeration over one generic iteration of the merge loop and the code that follows
    it (lib/norm_c03.MergeInterp: helpers inlined, loop-condition conjuncts / refusals behind the loop / status returns are
    ordinary paths); returns the normalised cursor logic (for the sibling note)"""
    keybase = "%s::%s%s" % (short(fn.cls), fn.name, sig)
    try:
        bpar = [p for p in fn.params if p["n"] == "b" and mat_class(fn.type(p["t"]))]
        if len(bpar) != 1 or not any(p["n"] == "allow_incomplete" for p in fn.params):
            raise Unknown("no matrix parameter `b` (right factor) / no parameter `allow_incomplete`")
        mi = MergeInterp(fn, bobj="b", ai_name="allow_incomplete")
        problems, unmodelled = mi.run()
        w = mi.merge_node
        if unmodelled and (problems or any("accumulate" in u for u in unmodelled)):
            raise Unknown("merge loop uses constructs the path rule does not model (%s); %d potential problems withheld" % ("; ".join(unmodelled[:3]), len(problems)))
        where = "" if mi.merge_fr is mi.root else " [merge loop in helper %s, inlined]" % mi.merge_fr.fn.name
        ck.ob("E7.no-silent-drop", keybase, not problems,
              "; ".join(problems) if problems else "B cursor `%s` advances at %d places, by one, at most once per iteration: after the accumulate statement or as the only effect of a path on which allow_incomplete is true; the merge is left with entries of b remaining only with the X cursor at its row end and allow_incomplete; every other such path reaches XABORTM; both cursors are bounds-checked before they are dereferenced; the X cursor only passes served or smaller-column slots%s" % (mi.bname, len(mi.n_adv), where),
              mi.merge_fr.fn.file, w.get("l"), sample={"accumulate": render(mi.acc)[:100], "merge loop": "%s at line %s of %s" % (w.get("k"), w.get("l"), mi.merge_fr.fn.name)})
        # normalised cursor logic for the sibling note
        names = {mi.bname: "B", mi.xname: "X"}
        an = mi.acc

        def rn(t):
            for nm, v in names.items():
                t = re.sub(r"\b%s\b" % re.escape(nm), v, t)
            t = re.sub(r"\b\w+\[\(?(\w+)( \+ 1)?\)?\]", lambda m: "A[%s%s]" % ("." if m.group(1) not in ("X", "B") else m.group(1), "+1" if m.group(2) else ""), t)
            return t

        def norm(n, ind=0):
            out = []
            for s in stmts(n):
                if s.get("k") == "If":
                    out.append(" " * ind + "if " + rn(render(s["c"])))
                    out += norm(s["then"], ind + 1)
                    if s.get("else") is not None:
                        out.append(" " * ind + "else")
                        out += norm(s["else"], ind + 1)
                elif s.get("k") == "Break":
                    out.append(" " * ind + "break")
                elif s.get("k") == "Call" and s.get("noreturn"):
                    out.append(" " * ind + "abort")
                elif s is an or (s.get("k") == "Decl") or (s.get("k") == "MCall"):
                    if s is an:
                        out.append(" " * ind + "accumulate")
                else:
                    out.append(" " * ind + rn(render(s)))
            return out
        return "\n".join(norm(w["body"]))
    except Unknown as e:
        ck.incomplete("E7.no-silent-drop", "%s: %s" % (keybase, e))
        return None


def merge_enumeration(ck, fn, sig):
    """E7.full-enumeration: the loops over rows / D-entries / A-entries that enclose the merge loop (in the product itself
    or in an inlined helper) visit every entry"""
    keybase = "%s::%s%s" % (short(fn.cls), fn.name, sig)
    try:
        mi = MergeInterp(fn, bobj="b", ai_name="allow_incomplete")
    except Unknown:
        return        # reported by E7.no-silent-drop
    # dynamic chain of loops around the merge loop (outermost first) and, per loop, the node of its body that leads to the merge
    chain, leads = [], {}
    fr, inner = mi.merge_fr, mi.merge_node
    while fr is not None:
        for F in reversed(fr.loop_chains().get(inner.get("i"), [])):
            chain.insert(0, (fr, F))
            leads[(fr.uid, F.get("i"))] = inner
            inner = F
        if fr.parent is None:
            break
        inner = fr.call
        fr = fr.parent
    found_by_frame = {}

    def scan_fn(fr):
        found = []

        def scan(n, loops, conds, order):
            k = n.get("k") if isinstance(n, dict) else None
            if k in ("Break", "Continue", "Return"):
                found.append((list(loops), list(conds), n, dict(order)))
                return
            if k in ("For", "While", "Do", "ForRange"):
                body = n.get("body")
                if body is not None:
                    sts = body.get("s", []) if body.get("k") == "Block" else [body]
                    for pos, st in enumerate(sts):
                        o2 = dict(order)
                        o2[n.get("i")] = pos
                        scan(st, loops + [n], conds, o2)
                return
            if k == "If":
                scan(n["then"], loops, conds + [n["c"]], order)
                if n.get("else") is not None:
                    scan(n["else"], loops, conds + [n["c"]], order)
                return
            if k == "Block":
                for st in n.get("s", []):
                    scan(st, loops, conds, order)
                return
        scan(fr.fn.body, [], [], {})
        return found
    for fr, F in chain:
        if F.get("k") != "For":
            continue
        if fr.uid not in found_by_frame:
            found_by_frame[fr.uid] = scan_fn(fr)
        found = found_by_frame[fr.uid]
        lead = leads[(fr.uid, F.get("i"))]
        role = "?"
        if F.get("init") is not None and F["init"].get("k") == "Decl" and F["init"]["vars"]:
            iv = strip(F["init"]["vars"][0].get("init") or {})
            ai_ = fr.array_index(iv)
            if ai_ is not None:
                role = "%s.%s" % (ai_[0]["obj"], ai_[0]["name"])
            elif is_zero(iv):
                a = fr.accessor(strip(F["c"])["rhs"]) if strip(F["c"]).get("k") == "Bin" else None
                role = "%s.%s" % (a["obj"], a["name"]) if a else "?"
        key = "%s/loop:%s" % (keybase, role)
        body = F.get("body")
        sts = body.get("s", []) if body is not None and body.get("k") == "Block" else [body]
        inner_pos = None
        for pos, st in enumerate(sts):
            if any(x is lead for x in walk(st)):
                inner_pos = pos
        problems, soft = [], []
        for loops, conds, node, order in found:
            if not any(x is F for x in loops):
                continue
            target = loops[-1]
            ctext = " && ".join(render(c)[:60] for c in conds[-2:]) or "(unconditionally)"
            unmodelled_cond = any(is_call(y) and y.get("k") in ("Call", "MCall") and not (y.get("k") == "MCall" and not y.get("a")) for c in conds for y in walk(c))
            if node["k"] == "Return" or (node["k"] == "Break" and target is F):
                msg = "line %s: `%s` under `%s` leaves the loop over %s before its condition ends it: the remaining entries each add an independent term alpha*D_ik*A_kl*B_l. of the product, which is silently omitted" % (node.get("l"), node["k"].lower(), ctext, role)
                (soft if unmodelled_cond else problems).append(msg)
            elif node["k"] == "Continue" and target is F:
                if inner_pos is not None and order.get(F.get("i"), 0) <= inner_pos and not any(x is node for x in walk(sts[inner_pos])):
                    soft.append("line %s: `continue` under `%s` skips the merge for the current entry of %s" % (node.get("l"), ctext, role))
        if soft and not problems:
            ck.incomplete("E7.full-enumeration", "%s: %s" % (key, "; ".join(soft[:2])))
            continue
        ck.ob("E7.full-enumeration", key, not problems, "; ".join(problems) if problems else "no break/return leaves the loop over %s; every entry reaches the merge loop" % role, fr.fn.file, F.get("l"))


# -------------------------------------------------------------------------------------------------
# container-level row loops (loop-carried state) and re-created results (dimension roles)
# -------------------------------------------------------------------------------------------------
def _target_local(n):
    """base local of a write target: `t`, `t[i]`, `t[i][j]`, `t.v[i]` -> decl id (else None)"""
    n = strip(n)
    while n is not None:
        k = n.get("k")
        if k == "Ref":
            return n.get("d") if n.get("dk") == "local" else None
        if k == "Index":
            n = strip(n["b"])
        elif k == "OpCall" and n.get("op") in ("[]", "()") and n.get("a"):
            n = strip(n["a"][0])
        elif k == "Member" and n.get("b") is not None:
            n = strip(n["b"])
        else:
            return None
    return None


def _writes(stmt):
    """(decl id, full?) of locals written by the statement tree"""
    out = []
    for n in walk(stmt):
        k = n.get("k")
        if k == "Assign":
            d = _target_local(n["lhs"])
            if d is not None:
                full = strip(n["lhs"]).get("k") == "Ref" and n.get("op") == "="
                out.append((d, full, n))
        elif k == "OpCall" and n.get("op") in ("=", "+=", "-=", "*=", "/=") and n.get("a"):
            d = _target_local(n["a"][0])
            if d is not None:
                out.append((d, strip(n["a"][0]).get("k") == "Ref" and n["op"] == "=", n))
        elif k == "Un" and n.get("op") in ("++", "--"):
            d = _target_local(n["e"])
            if d is not None:
                out.append((d, False, n))
        elif k == "MCall" and n.get("n") in ("format", "clear") and strip(n.get("obj") or {}).get("k") == "Ref":
            o = strip(n["obj"])
            if o.get("dk") == "local":
                out.append((o["d"], True, n))
    return out


def check_row_loops(ck, fn):
    """E2.row-loop-state: the value stored for row i does not depend on state of an earlier iteration"""
    loc = Locals(fn)
    sig = "(%s)" % ",".join(p["n"] for p in fn.params)
    outp = {p["d"]: p["n"] for p in fn.params if vec_like(fn.type(p["t"])) and not fn.type(p["t"]).strip().startswith("const")}
    declared = {}
    for n in fn.nodes():
        if n.get("k") == "Var":
            declared[n["d"]] = n
    for loop in [n for n in fn.nodes() if n.get("k") == "For"]:
        lf = loop_form(loop)
        if lf is None or lf["others"] or lf["down"] or lf["hi_off"]:
            continue
        cl = (lf["var"], lf["lo"], lf["hi"])
        a = accessor(loc, cl[2])
        if not (a and a["obj"] == "this" and a["name"] == "rows") or not is_zero(cl[1]):
            continue
        rowvar = cl[0]
        inside = {n["d"] for n in walk(loop["body"]) if n.get("k") == "Var"}
        stores = []
        for n in walk(loop["body"]):
            if n.get("k") == "OpCall" and n.get("op") == "()" and len(n.get("a", [])) == 3:
                o, i0 = strip(n["a"][0]), strip(n["a"][1])
                if o.get("k") == "Ref" and o.get("d") in outp and i0.get("k") == "Ref" and i0.get("d") == rowvar:
                    stores.append((outp[o["d"]], n["a"][2], n))
            if n.get("k") == "Assign":
                l = strip(n["lhs"])
                if l.get("k") == "Index" and strip(l["idx"]).get("k") == "Ref" and strip(l["idx"]).get("d") == rowvar:
                    acc = accessor(loc, l["b"])
                    b = loc.resolve(l["b"])
                    nm = acc["obj"] if acc and acc["name"] == "elements" and acc["obj"] in outp.values() else None
                    if nm is not None:
                        stores.append((nm, n["rhs"], n))
        top = loop["body"].get("s", []) if loop["body"].get("k") == "Block" else [loop["body"]]
        wr = _writes(loop["body"])
        written = {d for d, _, _ in wr}
        for name, val, node in stores:
            key = "%s::%s%s/%s" % (short(fn.cls), fn.name, sig, name)
            # locals the stored value depends on (through initialisers and in-loop writes of those locals)
            deps, work = set(), [val]
            while work:
                x = work.pop()
                for y in walk(x):
                    if y.get("k") == "Ref" and y.get("dk") == "local" and y.get("d") != rowvar and y["d"] not in deps:
                        deps.add(y["d"])
                        v = declared.get(y["d"])
                        if v is not None and v.get("init") is not None:
                            work.append(v["init"])
                        for d, full, wn in wr:
                            if d == y["d"]:
                                work.append(wn.get("rhs") if wn.get("k") == "Assign" else {"k": "Block", "s": wn.get("a", [])[1:]})
            problems = []
            for d in sorted(deps):
                if d in inside or d not in written:
                    continue          # fresh per iteration, or loop invariant
                nm = declared[d]["n"] if d in declared else "?"
                # an unconditional full definition at the top level of the loop body before the first other access
                reset = False
                maybe = None
                for y in walk(loop["body"]):
                    if is_call(y) and y.get("k") in ("Call", "MCall") and not (y.get("k") == "MCall" and y.get("n") in ("format", "clear")):
                        for a_ in y.get("a", []) + ([y["obj"]] if y.get("obj") else []):
                            a_ = strip(a_)
                            if a_.get("k") == "Un" and a_.get("op") == "&":
                                a_ = strip(a_["e"])
                            if a_.get("k") == "Ref" and a_.get("d") == d:
                                pts = [fn.type(t_) for t_ in y.get("pt", [])]
                                if y.get("k") == "MCall" and a_ is strip(y.get("obj") or {}) and y.get("cconst"):
                                    continue
                                if any("&" in t_ and "const" not in t_ for t_ in pts) or "*" in "".join(pts) or (y.get("k") == "MCall" and strip(y.get("obj") or {}).get("d") == d):
                                    maybe = "`%s` is handed to `%s` (line %s), which may re-initialise it" % (nm, (y.get("callee") or "?")[:50], y.get("l"))
                for st in top:
                    own_full = [wn for dd, full, wn in _writes(st) if dd == d and full and wn is st]
                    if own_full:
                        src = st.get("rhs") if st.get("k") == "Assign" else {"k": "Block", "s": (st.get("a") or [])[(1 if st.get("k") == "OpCall" else 0):]}
                        if not any(y.get("k") == "Ref" and y.get("d") == d for y in walk(src)):
                            reset = True
                        break
                    if any(y.get("k") == "Ref" and y.get("d") == d for y in walk(st)):
                        break
                if not reset and maybe:
                    ck.incomplete("E2.row-loop-state", "%s: %s" % (key, maybe))
                    problems = None
                    break
                if not reset:
                    problems.append("`%s` is declared outside the row loop, written inside it (line %s) and not re-initialised at the top of every iteration: the value stored for row i depends on earlier rows (rows that take no assigning path keep the stale value)" % (
                        nm, [wn.get("l") for dd, _, wn in wr if dd == d][0]))
            if problems is None:
                continue
            ck.ob("E2.row-loop-state", key, not problems, "; ".join(problems) if problems else "value stored for `%s[row]` depends only on loop-invariant data and on locals that are fresh in every iteration (%d locals traced)" % (name, len(deps)),
                  fn.file, node.get("l"))


def check_exits_checked(ck, fn):
    """E7.checks-before-exit: every normal exit of a matrix-algebra member has passed each of the member's own always-on
    compatibility assertions on its operands (XASSERT of an extent of a parameter against the receiver / another operand)"""
    cfg = fn.cfg
    sig = "(%s)" % ",".join(p["n"] for p in fn.params)
    key = "%s::%s%s/exits" % (short(fn.cls), fn.name, sig)
    operands = {p["d"]: p["n"] for p in fn.params if mat_class(fn.type(p["t"])) or vec_like(fn.type(p["t"])) or "Matrix" in fn.type(p["t"])}
    checks = [(c, call) for c, call in assertions(fn) if any(y.get("k") == "Ref" and y.get("d") in operands for y in walk(c))]
    if not checks or not operands:
        return
    if cfg is None:
        ck.incomplete("E7.checks-before-exit", "%s: no CFG" % key)
        return
    problems, soft = [], []
    for c, call in checks:
        cid = call.get("i")
        ok, bad = live_must_pass(fn, lambda n: any(y.get("i") == cid for y in walk(n)))
        if ok:
            continue
        marked = {b["id"] for b in cfg.blocks.values() if any(any(y.get("i") == cid for y in walk(fn.by_id(e) or {})) for e in b["el"])}
        for t in bad:
            path = cfg.path_to(t, avoid=marked) or []
            conds = []
            for bid in path:
                blk = cfg.blocks[bid]
                if len([x for x in blk.get("succ", []) if x is not None]) == 2 and blk.get("cond") is not None and fn.by_id(blk["cond"]) is not None:
                    conds.append(fn.by_id(blk["cond"]))
            ln = (cfg.block_lines([t]) or [None])[-1]
            ctext = " && ".join(render(x)[:50] for x in conds[-2:]) or "(unconditionally)"
            msg = "line %s: the exit under `%s` is reached without passing `XASSERT(%s)`: operands the operation refuses everywhere else (mismatching shape / pattern) are accepted there and the update alpha*x is silently dropped" % (ln, ctext, render(c)[:70])
            if any(y.get("k") == "Ref" and y.get("d") in operands for x in conds for y in walk(x)):
                soft.append(msg + " - the condition reads the operand; whether it implies compatibility is not decided")
            else:
                problems.append(msg + " - the condition does not read the operand `%s`, so it cannot imply the asserted compatibility" % ", ".join(sorted({y.get("n") for y in walk(c) if y.get("k") == "Ref" and y.get("d") in operands})))
    if soft and not problems:
        ck.incomplete("E7.checks-before-exit", "%s: %s" % (key, soft[0]))
        return
    ck.ob("E7.checks-before-exit", key, not problems, "; ".join(sorted(set(problems))[:3]) if problems else "every normal exit passes the %d operand assertions of the member" % len(checks), fn.file, fn.line)


def check_result_dims(ck, fn):
    """E1.result-dims: a non-transposing member that re-creates *this keeps rows and columns on every exit"""
    loc = Locals(fn)
    sig = "(%s)" % ",".join(p["n"] for p in fn.params)
    own = strip_targs(fn.cls)
    ctors = [n for n in fn.nodes() if n.get("k") in ("Construct", "TempObj") and strip_targs(n.get("ccls", "")) == own
             and "rows_in" in n.get("pn", []) and "columns_in" in n.get("pn", [])]
    if not ctors:
        return
    equal = {"rows": {"this"}, "columns": {"this"}}
    for cond, _ in assertions(fn):
        c = strip(cond)
        if c.get("k") == "Bin" and c.get("op") == "==":
            l, r = accessor(loc, c["lhs"]), accessor(loc, c["rhs"])
            if l and r and l["name"] == r["name"] and l["name"] in equal and "this" in (l["obj"], r["obj"]):
                equal[l["name"]] |= {l["obj"], r["obj"]}
    seen_roles = []
    for k, c in enumerate(sorted(ctors, key=lambda n: n.get("l", 0))):
        key = "%s::%s%s/result#%d" % (short(fn.cls), fn.name, sig, k)
        slots = dict(zip(c["pn"], c["a"]))
        problems = []
        roles = []
        for slot, want in (("rows_in", "rows"), ("columns_in", "columns")):
            a = accessor(loc, slots[slot])
            if a is None or a["name"] not in ("rows", "columns"):
                ck.incomplete("E1.result-dims", "%s: slot %s receives `%s` (not a dimension accessor)" % (key, slot, render(slots[slot])))
                roles.append("?")
                continue
            roles.append("%s.%s" % (a["obj"], a["name"]))
            if a["name"] != want or a["obj"] not in equal[want]:
                problems.append("slot %s receives %s.%s(); %s does not transpose: the result must have this->%s() %s" % (slot, a["obj"], a["name"], fn.name, want, want))
        seen_roles.append(tuple(roles))
        ck.ob("E1.result-dims", key, not problems, "; ".join(problems) if problems else "result constructed with (rows_in, columns_in) <- (%s)" % ", ".join(roles), fn.file, c.get("l"))
    if len(set(seen_roles)) > 1:
        ck.ob("E1.result-dims", "%s::%s%s/exits-agree" % (short(fn.cls), fn.name, sig), False,
              "the exits of %s construct the result with different dimension roles: %s" % (fn.name, sorted(set(seen_roles))), fn.file, fn.line)
    else:
        ck.ob("E1.result-dims", "%s::%s%s/exits-agree" % (short(fn.cls), fn.name, sig), True, "%d result constructions agree on %s" % (len(ctors), seen_roles[0]), fn.file, fn.line, trivial=len(ctors) < 2)


# -------------------------------------------------------------------------------------------------
def run(tier):
    ck = Check("C03", tier)
    ck.rule("E1.slots", "Arch call sites of SparseMatrixCSR/BCSR (axpy, scale, norm_frobenius, row_norm2/2sqr, max/min(_abs)_element, scale_rows/cols, lump_rows, extract_diag_indices) and of DenseMatrix::multiply (ProductMatMat::dense/dsd): every slot named by the callee's parameters receives the like-named accessor of the right object (structure arrays and extents of the receiver, value array of the operand matrix in slot a/x, the vector operand, the scalar, BlockHeight/BlockWidth; product: factors in order, summand z = the summand operand or the receiver, inner = columns(x)), pod arrays with pod entry counts; library array routines in the same members (MemoryPool::set_memory/copy/convert: `count` elements of the pointee type) receive value arrays and count in the same unit (scalars of Perspective::pod vs blocks). Broken for: rectangular matrices / rectangular blocks, alpha != 1, x != this, special-case paths (alpha == 0) on blocked matrices.", 46)
    ck.rule("E1.vector-guard", "the length guard of a vector operand names the dimension by which the kernel subscripts it (rows for row-indexed, columns for col_ind-indexed slots); scale_rows/scale_cols/lump_rows/extract_diag_indices state it as an always-on XASSERT. Broken for: rectangular matrices (valid operand rejected, or too short operand read out of bounds).", 24)
    ck.rule("E1.dispatch", "Arch wrappers of the matrix kernels forward each parameter to the like-named slot of the generic implementation of the same operation, on every path.", 46)
    ck.rule("E2.matrix-kernel", "generic kernels ScaleRows/ScaleCols/Lumping/RowNorm/Diagonal (csr and bcsr; helpers inlined): outer loop over [0,rows), entry loop over [row_ptr[row],row_ptr[row+1]), every array subscripted by the index kind of its role (entry, row, col_ind[entry]; blocked affine forms), per-row results defined outside the entry loop (empty rows) - per row, or by a clearing loop in front of the row loop that covers every entry the rows accumulate into (rows x BlockHeight scalars for blocked kernels) -, reductions only accumulate inside the entry loop, per-entry term and result equal the documented formula; scaling kernels write every entry of the target: a shortcut that skips entries on a test of the factor is right only for the in-place call (r == a, factor 1). Broken for: rectangular matrices, empty rows, rows with more than one entry/block, out-of-place scaling with unit factors, re-used output vectors of blocked row norms.", 46)
    ck.rule("E2.dense-product", "ProductMatMat::dense_generic / dsd_generic (DenseMatrix::multiply): loops over [0,rows) x [0,columns), a per-element sum that starts from 0 and only accumulates x_ik*y_kj over the inner dimension (dsd: over the entries of row i), row-major addresses of every array, and on every path through tests of the scalars and for every admissible aliasing of the output with the summand (z == r: the in-place update C <- alpha*A*B + beta*C, required by the MKL back end and used by multiply(x,y) itself) the net effect r_ij <- beta*z_ij(old) + alpha*sum; statements compose in program order. Broken for: non-square factors (addresses), in-place calls with beta != 0 (summand read after the output element was written).", 8)
    ck.rule("E2.merge-kinds", "add_double_mat_product / add_mat_mat_product (CSR, BCSR): every subscript of row_ptr/col_ind/val/elements of X, D, A, B has the index kind the array needs (Row/NZ/Col/Dim of that object); kinds of different objects are equal only through the function's own XASSERTs; compared column indices live in the same space; cursors are bounded by the end of their own segment. Broken for: products of non-square factors.", 86)
    ck.rule("E7.no-silent-drop", "merge loops (in the product itself or in a helper it calls, whatever the spelling: while/for, refusal inside or behind the loop, break / status return / status flag): on every path through one iteration an entry of the right factor B is passed over only after the accumulate statement X_ij += w*B_lj served it (itself executed only where the two column indices are equal, reading B at the cursor) or where allow_incomplete is known to be true, where advancing the B cursor by exactly one is the only permitted effect (at most one advance per iteration); every path that leaves the merge with entries of B remaining either reaches XABORTM or has allow_incomplete true AND the X cursor at the end of its row (no slot can follow); both cursors are checked against the end of their row before they are dereferenced, and the X cursor passes a slot only after serving it or when its column is smaller than the current B column. Broken for: output patterns poorer than the product pattern (silently wrong values instead of the documented abort), rows of X shorter than rows of B.", 7)
    ck.rule("E7.full-enumeration", "merge products: the for loops over the rows of X/D, the entries D_ik and the entries A_kl that enclose the sorted-merge loop are left only through their own loop condition (or XABORTM): no break / return inside them, no continue that skips the merge. Each iteration adds an independent term of sum_k sum_l alpha*D_ik*A_kl*B_l.; no condition on the cursors of the current B row says anything about later rows. Broken for: allow_incomplete with an output row that ends before a row of B, followed by further entries A_kl' whose rows hit existing slots.", 19)
    ck.rule("E7.checks-before-exit", "pattern / shape violations are reported, never silently accepted: every normal exit of a matrix-algebra member (axpy, scale, scale_rows/cols, lump_rows, extract_diag*, row_norm*, the sparse products, DenseMatrix::multiply) has passed each of the member's own always-on XASSERTs that compare an extent of an operand with the receiver or another operand (CFG: the assertion call lies on every path to the exit); an early return under a condition that does not read the operand bypasses the check. Broken for: empty-pattern / zero-row targets combined with non-matching operands (alpha*x silently dropped, wrong shapes accepted).", 38)
    ck.rule("E2.row-loop-state", "container-level row loops of the matrix-algebra members (extract_diag): the value stored for row i into an output vector depends only on loop-invariant data and on locals that are fresh (declared, or unconditionally re-initialised at the top) in every iteration. Broken for: rows that take no assigning path (block rows without a diagonal block after a row that has one) - they return the value of an earlier row instead of 0.", 3)
    ck.rule("E1.result-dims", "matrix-algebra members that re-create *this (shrink) construct the result with rows_in <- rows(), columns_in <- columns() of the receiver (or of an operand asserted equal) on every exit, and all exits agree. Broken for: non-square matrices on the special-case exit (all entries dropped).", 3)
    ck.rule("E0.instantiable", "the matrix algebra members instantiate for CSR and BCSR (square and rectangular blocks)", 3)

    ck.rule("E2.flat-kernel", "the generic flat kernels the matrix members hand their (pod) value arrays to - Arch::Axpy / Scale / Norm2 / MaxAbsIndex / MinAbsIndex / MaxIndex / MinIndex ::value_generic behind axpy, scale, norm_frobenius, max/min(_abs)_element (files kernel/lafem/arch/*_generic.hpp, outside the anchor list but relied upon) - satisfy the kernel rules of C04 (same analysis code, checks/c04.py): one induction over [0,size), element-wise definition under every aliasing pattern, reductions from 0, argmin/argmax seeded from element 0 (0 only for max-abs) with matching comparison and stored candidate. Broken for: matrices whose stored entries are all negative (max_element seeded with 0), aliased axpy/scale, empty matrices.", 28)
    from checks import c04 as vec

    class _Flat:
        # obligations of the C04 kernel analyses recorded under this property's rule
        def ob(self, rule, key, ok, detail="", file=None, line=None, sample=None, trivial=False):
            return ck.ob("E2.flat-kernel", "%s:%s" % (rule, key), ok, detail, file, line, sample=sample, trivial=trivial)

        def incomplete(self, rule, what):
            ck.incomplete("E2.flat-kernel", "%s: %s" % (rule, what))

        def note(self, s_):
            ck.note(s_)
    flat = _Flat()
    extra = ("-DVERIF_THOROUGH",) if tier == "thorough" else ()
    facts = featlib.extract("tu/c03_matrices.cpp", files=LAFEM + "|/verif/tu/", extra=extra)
    dfacts = featlib.extract("tu/c03_matrices.cpp", files=LAFEM, extra=extra, debug=True, cfg=False,
                             names=r"SparseMatrix(CSR|BCSR)<.*>::(row_norm2|row_norm2sqr)$")
    all_facts = [facts]
    if tier == "thorough":
        for t in ("sparse_matrix_csr-test.cpp", "sparse_matrix_bcsr-test.cpp", "matrix_mult-test.cpp"):
            try:
                all_facts.append(featlib.extract(featlib.repo_path("kernel/lafem/" + t), files=LAFEM))
            except (featlib.AnalysisBroken, OSError) as e:
                ck.incomplete("E0.instantiable", "repo TU %s could not be parsed: %s" % (t, str(e)[:200]))
    ck.tu(dfacts)
    # debug-only ASSERT beliefs (ASSERTM(scal.size() == ...)) keyed by (class, method, signature)
    dbg_asserts = {}
    for f in dfacts.functions:
        if f.tk == "pattern":
            continue
        sig = "(%s)" % ",".join(p["n"] for p in f.params)
        for c in f.calls(callee_re=r"^FEAT::assertion$"):
            if c.get("a"):
                dbg_asserts.setdefault((f.cls, f.name, sig), []).append(c["a"][0])

    seen = set()
    sib = {}
    for fx in all_facts:
        ck.tu(fx)
        for e in fx.errors_outside_repo():
            ck.incomplete("E0.instantiable", "front-end error outside the repository: %s:%d %s" % (e["file"], e["line"], e["msg"][:160]))
        for e in fx.errors_in_repo():
            member = None
            for nt in e["notes"]:
                m = re.search(r"in instantiation of (?:function template specialization|member function) '(.*?)' requested here", nt["msg"])
                if m:
                    member = m.group(1)
                    break
            ck.ob("E0.instantiable", strip_targs(member or e["file"]).replace("FEAT::LAFEM::", ""), False, "does not instantiate: %s:%d %s" % (rel(e["file"]), e["line"], e["msg"][:200]), e["file"], e["line"])
        for fn in fx.functions:
            if fn.tk == "pattern" or fn.body is None:
                continue
            ident = (fn.full, fn.line, ",".join(fn.type(p["t"]) for p in fn.params))
            if ident in seen:
                continue
            seen.add(ident)
            base = strip_targs(fn.cls)
            m = re.match(r"^FEAT::LAFEM::Arch::(\w+)$", base)
            if m and m.group(1) in FLAT_KERNELS and fn.name == "value_generic":
                # the flat kernels the matrix members hand their value arrays to: decided by the kernel rules of C04 (same code)
                kfn = inline_helpers(fn)
                if m.group(1) in vec.KERNEL_DEF:
                    vec.analyse_mapfold(flat, kfn, m.group(1), False)
                elif m.group(1) in vec.INDEX_KERNELS:
                    vec.analyse_index_kernel(flat, kfn, m.group(1), False)
                continue
            if m and m.group(1) == "ProductMatMat":
                if fn.name in ("dense_generic", "dsd_generic"):
                    analyse_product_kernel(ck, inline_helpers(fn))
                continue
            if base == "FEAT::LAFEM::DenseMatrix" and fn.name == "multiply":
                for c in fn.calls(callee_re=r"^FEAT::LAFEM::Arch::ProductMatMat::(dense|dsd)$"):
                    check_product_site(ck, fn, c)
                check_exits_checked(ck, fn)
                continue
            if m and m.group(1) in MATRIX_KERNELS:
                if "generic" in fn.name:
                    analyse_matrix_kernel(ck, inline_helpers(fn), m.group(1))       # helpers of kernel/lafem, if constexpr, std::fill/copy
                elif re.match(r"^(csr|bcsr)(_norm2|_norm2sqr|_scaled_norm2sqr)?$", fn.name):
                    check_dispatch(ck, fn)
                continue
            if base in MATRIX_CLASSES:
                for c in fn.calls(callee_re=ARCH_RE):
                    if c.get("k") == "Call":
                        check_matrix_call(ck, fn, c, dbg_asserts)
                if fn.name in ALGEBRA_MEMBERS:
                    for c in fn.calls(callee_re=r"^FEAT::MemoryPool::(copy|set_memory|convert)$"):
                        check_pool_site(ck, fn, c)
                    check_exits_checked(ck, fn)
                    check_row_loops(ck, fn)
                    check_result_dims(ck, fn)
                if fn.name in MERGE_FUNCS:
                    sig = "(%s)" % ",".join("%s:%s" % (p["n"], mat_class(fn.type(p["t"])) or ("vec" if vec_like(fn.type(p["t"])) else "")) for p in fn.params if p["n"] in ("d", "a", "b"))
                    sig = sig.replace("SparseMatrix", "")
                    merge_kinds(ck, fn, sig)
                    merge_enumeration(ck, fn, sig)
                    nf = merge_paths(ck, fn, sig)
                    if nf is not None:
                        sib.setdefault(nf, []).append("%s::%s%s" % (short(fn.cls), fn.name, sig))
    for cls_re in (r"^FEAT::LAFEM::SparseMatrixCSR<", r"^FEAT::LAFEM::SparseMatrixBCSR<"):
        for cls in sorted({f.cls for f in facts.functions if re.search(cls_re, f.cls) and f.tk != "pattern" and f.name == "axpy"}):
            have = {f.name for f in facts.functions if f.cls == cls}
            want = ["axpy", "scale", "norm_frobenius", "row_norm2", "row_norm2sqr", "max_abs_element", "min_abs_element", "max_element", "min_element",
                    "scale_rows", "scale_cols", "add_double_mat_product", "lump_rows", "extract_diag_indices"] + (["add_mat_mat_product"] if "CSR<" in cls and "BCSR" not in cls else [])
            missing = [m for m in want if m not in have]
            if missing:
                ck.incomplete("E0.instantiable", "%s: no body for %s" % (cls, missing))
            ck.ob("E0.instantiable", cls.replace("FEAT::LAFEM::", "") + "/operations", True, "%d operations instantiated and type-checked" % (len(want) - len(missing)))
    # sibling agreement (cross-reference level: a note, never a violation)
    if len(sib) > 1:
        groups = sorted(sib.items(), key=lambda kv: -len(kv[1]))
        ck.note("sibling merge loops differ in their normalised cursor logic: majority %s; deviating: %s" % (sorted(set(groups[0][1])), [sorted(set(g[1])) for g in groups[1:]]))
    elif sib:
        ck.note("sibling agreement: all %d merge loops (%s) have identical normalised cursor logic" % (len(set(list(sib.values())[0])), ", ".join(sorted(set(list(sib.values())[0])))))
    ck.assume("E7 is decided by path enumeration over the statement trees of the instantiated members with repository helpers inlined (lib/norm_c03); each loop is entered in an arbitrary state of the variables it writes (one generic iteration); the accumulate statement is the unique statement that writes this->val()[cursor]; the right factor is the parameter named b")
    ck.assume("sortedness of column indices inside a row (precondition of a sorted merge) is an input contract of CSR/BCSR and not checked here")
    ck.assume("numerical equality with the dense formulas (rounding, 0*NaN), min/max tie-breaking, the MKL/CUDA back ends of ProductMatMat are not decided here; the flat kernels shared with C04 (Axpy/Scale/Norm2/Min/Max index value_generic) are decided here by C04's kernel analyses (rule E2.flat-kernel); in the dense product the only aliasing of the output considered admissible is with the summand (r == z), as the MKL back end requires and multiply(x,y) does")
    return ck.finish(
        "Static rules over the clang-resolved program (driver tu/c03_matrices.cpp: SparseMatrixCSR<double>, SparseMatrixBCSR<double,3,3> and <double,2,3>, DenseMatrix<double>%s): role agreement at every Arch call site of the matrix "
        "algebra members (slots named by the callee's parameters, perspectives, block dimensions, vector length guards incl. debug ASSERTs), index-kind and formula conformance of the generic "
        "scale_row_col/lumping/row_norm/diagonal kernels (loop ranges, subscript kinds, empty rows, accumulate-only reductions), index kinds of the sorted-merge products under the functions' own "
        "XASSERT equalities, and the path rule (all paths of one generic merge iteration and of the code behind the loop, helpers inlined) that no entry of the right factor is skipped without accumulation unless allow_incomplete is true while every other way out aborts. Symbolic in "
        "sizes and patterns; template arguments are those of the driver." % (" + float/uint32 + repo test TUs" if tier == "thorough" else ""))
