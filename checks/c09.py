"""C09 — MultiGrid performs the documented V/F/W cycle.

Static rules over the resolved program (clang front end facts; no FEAT3 code is executed):

 * E14.cycle-shape      the helper-event language of _apply_cycle_v/_f/_w equals the documented cycle
 * E14.level-range      level loops of the F/W cycle and of _apply_rest/_apply_prol have the documented ranges
 * E2.w-counters        W-cycle counter array: subscripts are absolute levels, entry reset covers every later use
 * E13.cycle-dispatch   apply() maps MultiGridCycle::X to _apply_cycle_x
 * E7.hand-over         rhs(top) := vec_def before the cycle, vec_cor := sol(top) after it, vec_def const
 * E1.level-roles       every operation on level objects uses the vectors/operators of the right level and role
 * E7.solver-registration every solver the helpers may apply is registered for init/done on every level, unconditionally
 * E1.level-setup-roles push_level argument -> MultiGridLevelStd ctor parameter -> member -> getter keep their role (pre/post/peak/…)
 * E8.def-fresh / E7.filter-def / E7.filter-cor / E7.filter-rhs / E8.sol-epoch
                        freshness typestate of def = rhs - A*sol and of sol per level, summary based
 * E7.peak-fallback     peak smoothing uses the peak smoother, else pre then post (each if given)
 * E6.adapt-omega       adaptive coarse grid correction step lengths are the energy/defect minimisers

Not decided: the W-cycle counter walk (ruler order of the peak levels; data dependent), the
ghost/MPI transfer branches beyond operand roles, numerical equality with a reference cycle,
convergence rates.
"""
import re

import featlib
from featlib import Check, render, rel
import mgfacts
from mgfacts import strip, walk, kids, regex_nfa, cfg_nfa, lang_diff, FnView
import mgmodel
from mgmodel import MGView, classify, args_by_name, neg_of, is_one
import mgflow
import norm_c08

MG = "kernel/solver/multigrid.hpp"
CYCLES = {"_apply_cycle_v": "V", "_apply_cycle_f": "F", "_apply_cycle_w": "W"}


def sym(x):
    return ("sym", x)


R_T, C, P_T = sym("rest(top,T)"), sym("coarse"), sym("prol(top,T)")
P_F, K, R_F, M = sym("prol(p,F)"), sym("peak(p)"), sym("rest(p,F)"), sym("mod(p)")
MS = ("star", M)
# documented cycles: comments at the head of _apply_cycle_v/_f/_w and doxy_in/multigrid.dox
DOC = {
    "V": ("seq", [R_T, C, P_T]),
    "F": ("seq", [R_T, ("star", ("seq", [C, P_F, K, R_F])), C, P_T]),
    "W": ("seq", [R_T, C, ("star", ("seq", [P_F, K, R_F, C])), P_T]),
}
# the same with assignments to the peak-level variable allowed everywhere except inside a prol/peak/rest triple
DOC_M = {
    "V": ("seq", [MS, R_T, MS, C, MS, P_T, MS]),
    "F": ("seq", [MS, R_T, MS, ("star", ("seq", [C, MS, P_F, K, R_F, MS])), C, MS, P_T, MS]),
    "W": ("seq", [MS, R_T, MS, C, MS, ("star", ("seq", [P_F, K, R_F, MS, C, MS])), P_T, MS]),
}
DOC_TEXT = {
    "V": "rest(top,T) coarse prol(top,T)",
    "F": "rest(top,T) ( coarse prol(p,F) peak(p) rest(p,F) )* coarse prol(top,T)",
    "W": "rest(top,T) coarse ( prol(p,F) peak(p) rest(p,F) coarse )* prol(top,T)",
}


def mg_functions(facts, cls_re):
    out = {}
    for f in facts.functions:
        if f.tk == "pattern" or not re.search(cls_re, f.cls):
            continue
        cur = out.setdefault(f.cls, {}).get(f.name)
        # overloads of a modelled helper: the modelled one takes the level as an index (a sibling taking the LevelInfo object,
        # or with another arity, is inlined into it / treated as the same event)
        if cur is None or (f.name in mgmodel.HELPERS and helper_rank(f) < helper_rank(cur)):
            out[f.cls][f.name] = f
    return out


def helper_rank(f):
    """0 for the modelled signature of a helper (arity as documented, level given as an index), larger otherwise"""
    ar = mgmodel.HELPER_ARITY.get(f.name)
    r = 0 if ar is None or len(f.params) == ar else 2
    if f.params and "LevelInfo" in f.type(f.params[0]["t"]):
        r += 1
    return r


def short_cls(cls):
    m = re.search(r"MultiGrid<FEAT::LAFEM::(\w+)<([^,>]*)", cls)
    return "MultiGrid<%s<%s>>" % (m.group(1), m.group(2)) if m else cls


# -------------------------------------------------------------------------------------------------
# cycle shape
# -------------------------------------------------------------------------------------------------

def cycle_labels(view):
    """stmt id -> label for helper events and writes of the peak-level variable"""
    evs = {}
    pv = {}
    for b in view.cfg.blocks.values():
        for e in b["el"]:
            ev = classify(view, e)
            if ev and ev["kind"] == "helper":
                evs[e] = ev
                lv = ev.get("level")
                if lv and lv[0] == "v":
                    pv[lv[1]] = pv.get(lv[1], 0) + 1
    pvar = max(pv, key=pv.get) if pv else None
    # the peak level is (variable + poff): poff = 0 in `for(p = last-1; p > top; --p)`, -1 in `for(pp = last; pp > top+1; --pp) { p = pp-1; ...`
    offs = {}
    for ev in evs.values():
        lv = ev.get("level")
        if lv and lv[0] == "v" and lv[1] == pvar:
            offs[lv[2]] = offs.get(lv[2], 0) + 1
    poff = max(offs, key=offs.get) if offs else 0
    view.poff = poff
    labels = {}
    problems = []
    for e, ev in evs.items():
        h = ev["helper"]
        if h == "_apply_coarse":
            labels[e] = "coarse"
            continue
        lv = ev.get("level")
        if lv == ("top", 0):
            ls = "top"
        elif lv is not None and lv[0] == "v" and lv[1] == pvar and lv[2] == poff:
            ls = "p"
        elif lv is not None and lv[0] == "v" and lv[1] == pvar:
            ls = "p%+d" % (lv[2] - poff)
        elif lv is None:
            problems.append("level argument %s of %s is not a level expression (constant, _top_level, last level, or a variable plus a constant)" % (render(ev.get("level_node")), h))
            ls = "?" + render(ev.get("level_node"))
        else:
            ls = view.level_name(lv)
        if h == "_apply_smooth_peak":
            labels[e] = "peak(%s)" % ls
        elif h in ("_apply_rest", "_apply_prol"):
            fl = ev.get("flag")
            if fl is None:
                problems.append("flag argument %s of %s is not a constant" % (render(ev.get("flag_node")), h))
                fs = "?"
            else:
                fs = "T" if fl else "F"
            labels[e] = "%s(%s,%s)" % (h[7:], ls, fs)
        else:
            labels[e] = h
    if pvar is not None:
        if pvar in view.decl_stmt:
            labels[view.decl_stmt[pvar]] = "mod(p)"
        for w in view.writes.get(pvar, []):
            labels[w["i"]] = "mod(p)"
    return labels, pvar, problems


def check_shape(ck, view, cyc, inst):
    labels, pvar, problems = cycle_labels(view)
    for b in view.cfg.blocks.values():
        for e in b["el"]:
            ev = classify(view, e)
            if ev and ev["kind"] == "unknown":
                problems.append("%s (line %s): helper calls may be hidden in it" % (ev["why"], ev["n"].get("l")))
    if any(n.get("k") == "Lambda" for n in walk(view.fn.body)):
        problems.append("lambda inside the cycle function")
    for p in problems:
        ck.incomplete("E14.cycle-shape", "%s: %s" % (inst, p))
    if problems:
        return pvar
    plain = cfg_nfa(view, lambda e: labels.get(e) if labels.get(e) != "mod(p)" else None)
    d = lang_diff(plain, regex_nfa(DOC[cyc]))
    ok = d is None
    detail = "helper-call language equals the documented %s-cycle: %s" % (cyc, DOC_TEXT[cyc])
    if d is not None:
        w, side = d
        if side == "left":
            detail = "the code can perform the helper sequence [%s], which is not a documented %s-cycle (%s)" % (" ".join(w), cyc, DOC_TEXT[cyc])
        else:
            detail = "the documented %s-cycle sequence [%s] cannot be performed by the code (documented: %s)" % (cyc, " ".join(w), DOC_TEXT[cyc])
    else:
        withm = cfg_nfa(view, lambda e: labels.get(e))
        d2 = lang_diff(withm, regex_nfa(DOC_M[cyc]), only_left=True)
        if d2 is not None:
            ok = False
            detail = "the peak-level variable is modified inside a prol/peak/rest triple: [%s]" % " ".join(d2[0])
    ck.ob("E14.cycle-shape", inst, ok, detail, view.fn.file, view.fn.line,
          sample={"documented": DOC_TEXT[cyc], "events": sorted(set(l for l in labels.values()))})
    return pvar


# -------------------------------------------------------------------------------------------------
# level ranges
# -------------------------------------------------------------------------------------------------

FLIP = {"<": ">", ">": "<", "<=": ">=", ">=": "<=", "!=": "!=", "==": "=="}


def loop_of(view, sids):
    """innermost For/While/Do node containing all the given statement ids"""
    best = None
    for n in walk(view.fn.body):
        if n.get("k") in ("For", "While", "Do", "ForRange"):
            ids = {x.get("i") for x in walk(n)}
            if all(s in ids for s in sids):
                best = n      # pre-order walk: later matches are nested deeper
    return best


def for_shape(view, loop):
    """(var decl, init node, (op, bound node), step) of a counting loop; None where not of that form.
    Accepts `for(T v = init; v op bound; step)`, the same with the step as first or last statement of the body,
    and `T v = init; while(v op bound) { [step;] ... [step;] }`.  step = (+-k, 'inc' | 'body', node):
    'inc' = executed after the body (for-increment or last body statement), 'body' = first statement of the body."""
    if loop is None or loop.get("k") not in ("For", "While"):
        return None
    c = strip(loop.get("c") or {})
    var = None
    if loop["k"] == "For":
        init = loop.get("init")
        if init is not None and init.get("k") == "Decl" and len(init.get("vars", [])) == 1:
            var = init["vars"][0]
    if var is None:
        # variable of the condition, declared (with initialiser) outside the loop
        if c.get("k") == "Bin" and c.get("op") in FLIP:
            for side in (strip(c["lhs"]), strip(c["rhs"])):
                if side.get("k") == "Ref" and side.get("dk") == "local" and len(view.writes.get(side["d"], [])) == 1 and side["d"] in view.locals:
                    var = view.locals[side["d"]]
                    break
        if var is None or (loop["k"] == "For" and loop.get("init") is not None):
            return None
    d = var["d"]
    cond = None
    if c.get("k") == "Bin" and c.get("op") in FLIP:
        l, r = strip(c["lhs"]), strip(c["rhs"])
        if l.get("k") == "Ref" and l.get("d") == d:
            cond = (c["op"], r)
        elif r.get("k") == "Ref" and r.get("d") == d:
            cond = (FLIP[c["op"]], l)
    inc = loop.get("inc")
    body = loop.get("body") or {}
    stmts = body.get("s", []) if body.get("k") == "Block" else [body]
    step = None
    writes = view.writes.get(d, [])
    if len(writes) == 1:
        w = writes[0]
        k = None
        if w.get("k") == "Un":
            k = +1 if w["op"] == "++" else -1
        elif w.get("k") == "Assign" and w.get("op") in ("+=", "-=") and strip(w["rhs"]).get("k") == "Int":
            k = int(strip(w["rhs"])["v"]) * (1 if w["op"] == "+=" else -1)
        if k is not None:
            where = None
            if inc is not None and w["i"] in {x.get("i") for x in walk(inc)}:
                where = "inc"
            elif stmts and strip(stmts[0]).get("i") == w.get("i"):
                where = "body"
            elif stmts and strip(stmts[-1]).get("i") == w.get("i") and not any(x.get("k") == "Continue" for x in walk(body)):
                where = "inc"
            elif w["i"] in {x.get("i") for x in walk(body)}:
                where = "mid"
            if where in ("inc", "body", "mid"):
                step = (k, where, w)      # 'mid': somewhere inside the body; callers decide whether that is acceptable
    return {"d": d, "var": var, "init": var.get("init"), "cond": cond, "step": step}


def visited_levels(init, op, bound, step, where):
    """canonical form of a counting level loop: (first visited level, last visited level, direction), or None.
    `for(i = a; i < b; ++i)`, `i <= b-1`, `i != b`; `for(p = a; p > b; --p)`, `p >= b+1`; `for(i = a; i > b;) { --i; ...` (visits
    a-1 .. b) are compared by the levels they visit, not by their spelling."""
    if init is None or bound is None or abs(step) != 1:
        return None
    sh_ = lambda lv, k: lv[:-1] + (lv[-1] + k,)
    if step == 1 and op in ("<", "<=", "!="):
        first = init if where == "inc" else sh_(init, 1)
        last = bound if op == "<=" else sh_(bound, -1)
        if where != "inc":
            last = sh_(last, 1)
        return first, last, "ascending"
    if step == -1 and op in (">", ">=", "!="):
        first = init if where == "inc" else sh_(init, -1)
        last = bound if op == ">=" else sh_(bound, 1)
        if where != "inc":
            last = sh_(last, -1)
        return first, last, "descending"
    return None


LEVEL_OPERANDS = ("mat", "fil", "tra", "smoother", "cor", "def", "r", "x", "y", "vec", "fine", "coarse", "dst", "src", "a", "b")


def event_level_offsets(evlist, d):
    """offsets k of the levels `<variable d> + k` that the level operations of a helper touch"""
    offs = set()
    for e, ev in evlist or []:
        for key in LEVEL_OPERANDS:
            o = ev.get(key)
            if isinstance(o, tuple) and len(o) >= 2 and isinstance(o[1], tuple) and o[1][0] == "v" and o[1][1] == d:
                offs.add(o[1][2])
        lv = ev.get("level") if ev.get("kind") == "helper" else None
        if lv and lv[0] == "v" and lv[1] == d:
            offs.add(lv[2])
    return offs


def check_level_loop(ck, view, inst, event_ids, want_init, want_op, want_bound, want_step, what, param_level=None, want_where="inc", evlist=None):
    """the loop around the level events visits the same levels in the same order as
    `for(var = want_init; var <want_op> want_bound; step want_step)` (step placed as want_where)"""
    rule = "E14.level-range"
    loop = loop_of(view, event_ids)
    sh = for_shape(view, loop)
    if sh is None or sh["cond"] is None or sh["step"] is None or sh["init"] is None or (sh["step"][1] == "mid" and want_step > 0):
        ck.incomplete(rule, "%s: the level loop is not a counting loop with one induction variable (found %s)" % (inst, render(loop) if loop else "no loop"))
        return None
    nm = sh["var"]["n"]
    init = view.level(sh["init"])
    bound = view.level(sh["cond"][1])
    if init is None or bound is None:
        ck.incomplete(rule, "%s: loop bounds %s / %s are not level expressions" % (inst, render(sh["init"]), render(sh["cond"][1])))
        return None
    got = "%s = %s; %s %s %s; step %+d%s" % (nm, view.level_name(init), nm, sh["cond"][0], view.level_name(bound), sh["step"][0], " (first in the body)" if sh["step"][1] != "inc" else "")
    where = "inc" if sh["step"][1] == "inc" else "body"
    gv = visited_levels(init, sh["cond"][0], bound, sh["step"][0], where)
    wv = visited_levels(want_init, want_op, want_bound, want_step, "inc" if want_where == "inc" else "body")
    if gv is None:
        ck.incomplete(rule, "%s: level loop %s: condition / step combination not modelled" % (inst, got))
        return None
    # the levels worked on are (loop variable + base), (loop variable + base + 1): `for(ii = last; ii > cur; --ii) { i = ii - 1; ...`
    # visits the fine levels ii-1
    offs = event_level_offsets(evlist, sh["d"])
    base = min(offs) if offs else 0
    if offs - {base, base + 1}:
        ck.incomplete(rule, "%s: level loop %s works on the levels %s of its variable (expected a fine level and the next coarser one)" % (inst, got, sorted(offs)))
        return None
    if base:
        gv = (gv[0][:-1] + (gv[0][-1] + base,), gv[1][:-1] + (gv[1][-1] + base,), gv[2])
        got += "; fine level = %s%+d" % (nm, base)
    sh["base"] = base
    ok = gv == wv
    why = ""
    if not ok:
        why = "; it visits the levels %s .. %s %s, documented %s .. %s %s" % (view.level_name(gv[0]), view.level_name(gv[1]), gv[2], view.level_name(wv[0]), view.level_name(wv[1]), wv[2])
        for nm2, g, w in (("start", init, want_init), ("bound", bound, want_bound)):
            if g != w and g[0] == "abs":
                why += "; the %s is the constant level %d instead of %s: for a level sub-range with top_level > %d levels outside [top, last] of this multigrid are visited" % (
                    nm2, g[1], view.level_name(w), g[1])
    ck.ob(rule, inst, ok, "%s: %s (documented: %s)%s" % ("level loop" if ok else "level loop differs", got, what, why), view.fn.file, loop.get("l"),
          sample={"loop": got, "documented": what})
    return sh


def pow2_form(view, n):
    """(hi level, lo level, constant c) if n == (1 << (hi - lo)) + c, through named constants; else None"""
    n = view.value(n)
    if n.get("k") == "Bin" and n.get("op") in ("+", "-") and view.value(n["rhs"]).get("k") == "Int":
        r = pow2_form(view, n["lhs"])
        if r is not None:
            return r[0], r[1], r[2] + int(view.value(n["rhs"])["v"]) * (1 if n["op"] == "+" else -1)
        return None
    if n.get("k") == "Bin" and n.get("op") == "<<" and view.value(n["lhs"]).get("k") == "Int" and int(view.value(n["lhs"])["v"]) == 1:
        ex = view.value(n["rhs"])
        if ex.get("k") == "Bin" and ex.get("op") == "-":
            hi, lo = view.level(ex["lhs"]), view.level(ex["rhs"])
            if hi is not None and lo is not None:
                return hi, lo, 0
    return None


def w_iterations(view, sh):
    """number of iterations of a counting loop as (hi, lo, c): (1 << (hi - lo)) + c; None if not of that form.
    for(c = a; c < N; ++c), c <= N-1, c != N, for(c = N-1; c > 0; --c), ... are compared by their iteration count."""
    if sh is None or sh["cond"] is None or sh["step"] is None or sh["init"] is None or sh["step"][1] == "mid" or abs(sh["step"][0]) != 1:
        return None
    op, st = sh["cond"][0], sh["step"][0]
    a, n = view.value(sh["init"]), view.value(sh["cond"][1])
    if st == 1 and op in ("<", "<=", "!=") and a.get("k") == "Int":
        p2 = pow2_form(view, n)
        if p2 is None:
            return None
        return p2[0], p2[1], p2[2] - int(a["v"]) + (1 if op == "<=" else 0)
    if st == -1 and op in (">", ">=", "!=") and n.get("k") == "Int":
        p2 = pow2_form(view, a)
        if p2 is None:
            return None
        return p2[0], p2[1], p2[2] - int(n["v"]) + (1 if op == ">=" else 0)
    return None


def check_w_count(ck, view, inst, event_ids, top=("top", 0)):
    rule = "E14.level-range"
    loop = loop_of(view, event_ids)
    sh = for_shape(view, loop)
    what = "1 + (iterations) = 2^(last-top) coarse solves: for(c = 1; c < (1 << (last - top)); ++c)"
    if sh is None or sh["cond"] is None or sh["step"] is None or sh["init"] is None:
        ck.incomplete(rule, "%s: the W-cycle loop is not a counting for-loop (found %s)" % (inst, render(loop) if loop else "no loop"))
        return
    it = w_iterations(view, sh)
    if it is None:
        ck.incomplete(rule, "%s: W-cycle loop `%s = %s; %s %s %s; step %+d`: iteration count not of the form (1 << (last-top)) + const" % (
            inst, sh["var"]["n"], render(sh["init"]), sh["var"]["n"], sh["cond"][0], render(sh["cond"][1]), sh["step"][0]))
        return
    hi, lo, c = it
    got = "%s = %s; %s %s %s; step %+d: (1 << (%s - %s))%+d iterations" % (sh["var"]["n"], render(view.value(sh["init"])), sh["var"]["n"], sh["cond"][0], render(view.value(sh["cond"][1])),
                                                                         sh["step"][0], view.level_name(hi), view.level_name(lo), c)
    got = re.sub(r"FEAT::Index|std::size_t|unsigned long|int\b", "", got)
    ok = hi == ("last", 0) and lo == top and c == -1
    ck.ob(rule, inst, ok, "%s: %s (documented: %s)" % ("W-cycle loop" if ok else "W-cycle loop differs", got, what), view.fn.file, loop.get("l"),
          sample={"loop": got})


# -------------------------------------------------------------------------------------------------
# W-cycle bookkeeping array: index kinds and reset coverage
# -------------------------------------------------------------------------------------------------

class Lin:
    """alpha*last + beta*top + gamma  (last = min(_crs_level, size_physical()), top = _top_level)"""

    def __init__(self, a=0, b=0, c=0):
        self.a, self.b, self.c = a, b, c

    def __add__(self, o):
        return Lin(self.a + o.a, self.b + o.b, self.c + o.c)

    def __sub__(self, o):
        return Lin(self.a - o.a, self.b - o.b, self.c - o.c)

    def shift(self, k):
        return Lin(self.a, self.b, self.c + k)

    def __str__(self):
        t = []
        for co, nm in ((self.a, "last"), (self.b, "top")):
            if co:
                t.append(("%s" % nm) if co == 1 else ("-%s" % nm if co == -1 else "%d*%s" % (co, nm)))
        if self.c or not t:
            t.append("%d" % self.c)
        return "+".join(t).replace("+-", "-")

    def nonneg(self, gap):
        """>= 0 for all 0 <= top, top + gap <= last ?"""
        # last = top + gap + t, top = s, s,t >= 0:  (a+b) s + a t + (a*gap + c)
        return self.a + self.b >= 0 and self.a >= 0 and self.a * gap + self.c >= 0


def lin_of(view, n):
    n = view.value(n)
    k = n.get("k")
    if k == "Int":
        return Lin(0, 0, int(n["v"]))
    lv = view.level(n)
    if lv is not None and lv[0] == "top":
        return Lin(0, 1, lv[1])
    if lv is not None and lv[0] == "last":
        return Lin(1, 0, lv[1])
    if k == "Bin" and n.get("op") in ("+", "-"):
        a, b = lin_of(view, n["lhs"]), lin_of(view, n["rhs"])
        if a is None or b is None:
            return None
        return a + b if n["op"] == "+" else a - b
    return None


def enclosing(view, node, kinds):
    p = view.parent.get(node.get("i"))
    out = []
    while p is not None:
        if p.get("k") in kinds:
            out.append(p)
        p = view.parent.get(p.get("i"))
    return out


def is_w_count_loop(view, loop):
    """a counting loop with at most (1 << (last - top)) - 1 iterations: an iteration implies last > top"""
    it = w_iterations(view, for_shape(view, loop))
    return it is not None and it[0] == ("last", 0) and it[1] == ("top", 0) and it[2] <= -1


def lin_min(a, b, gap):
    """the smaller of two Lin values if they are comparable for every admissible (top, last), else None"""
    if (b - a).nonneg(gap):
        return a
    if (a - b).nonneg(gap):
        return b
    return None


def lin_max(a, b, gap):
    if (b - a).nonneg(gap):
        return b
    if (a - b).nonneg(gap):
        return a
    return None


def site_gap(view, node):
    """1 if the node sits inside the W-cycle count loop (an iteration implies last > top), else 0"""
    return 1 if any(is_w_count_loop(view, l) for l in enclosing(view, node, ("For", "While", "Do"))) else 0


def expr_interval(view, site, e, busy=()):
    """symbolic interval [lo, hi] (Lin) of an index expression evaluated at node `site`: level expressions, loop /
    search / result variables (see var_interval), each plus or minus a constant; raises NotImplementedError(text)"""
    v = lin_of(view, e)
    if v is not None:
        return v, v, str(v)
    x = view.value(e)
    k = x.get("k")
    if k == "Ref" and x.get("dk") == "local":
        return var_interval(view, site, x, busy)
    if k == "Bin" and x.get("op") in ("+", "-"):
        l, r = view.value(x["lhs"]), view.value(x["rhs"])
        if r.get("k") == "Int":
            lo, hi, d = expr_interval(view, site, l, busy)
            c = int(r["v"]) * (1 if x["op"] == "+" else -1)
            return lo.shift(c), hi.shift(c), "%s%+d" % (d, c)
        if l.get("k") == "Int" and x["op"] == "+":
            lo, hi, d = expr_interval(view, site, r, busy)
            return lo.shift(int(l["v"])), hi.shift(int(l["v"])), "%s%+d" % (d, int(l["v"]))
    raise NotImplementedError("%s is not a level expression or a loop / search variable plus a constant" % render(e))


def var_interval(view, site, ref, busy=()):
    """interval of the values the local variable `ref` can hold at node `site`:
       (1) induction variable of an enclosing counting loop (for / while, step in the increment or first in the body),
       (2) descending search variable `T p = X; while(p > B) { ... --p ... }`,
       (3) result variable: initialised and otherwise only assigned (`p = e`) — the hull of the initial and all assigned
           values, each evaluated at its assignment (e.g. `p = top; for(i...) if(..) { p = i; break; }`)."""
    d, nm = ref["d"], ref.get("n")
    if d in busy:
        raise NotImplementedError("cyclic definition of %s" % nm)
    busy = busy + (d,)
    loops = enclosing(view, site, ("For", "While", "Do"))
    gap = site_gap(view, site)
    for l in loops:
        sh = for_shape(view, l)
        if sh is None or sh["d"] != d or sh["step"] is None or sh["step"][1] == "mid":
            continue
        if sh["cond"] is None or sh["init"] is None:
            raise NotImplementedError("loop over %s is not a counting loop" % nm)
        Ilo, Ihi, _ = expr_interval(view, l, sh["init"], busy)
        Blo, Bhi, _ = expr_interval(view, l, sh["cond"][1], busy)
        op, (st, where, w) = sh["cond"][0], sh["step"]
        txt = "%s = %s; %s %s %s" % (nm, render(sh["init"]), nm, op, render(sh["cond"][1]))
        txt = re.sub(r"std::size_t|FEAT::Index|unsigned long", "", txt)
        if st == 1 and where == "inc" and op in ("<", "<=", "!="):
            return Ilo, (Bhi if op == "<=" else Bhi.shift(-1)), "for(%s; ++)" % txt
        if st == -1 and where == "inc" and op in (">", ">=", "!="):
            return (Blo if op == ">=" else Blo.shift(1)), Ihi, "for(%s; --)" % txt
        if st == -1 and where == "body" and op in (">", ">=", "!="):
            body = l.get("body") or {}
            first = (body.get("s") or [None])[0]
            if first is None or strip(first).get("i") != w.get("i"):
                raise NotImplementedError("decrement of %s is not the first statement of its loop body" % nm)
            return (Blo.shift(-1) if op == ">=" else Blo), Ihi.shift(-1), "for(%s;) { --%s; ..." % (txt, nm)
        raise NotImplementedError("loop over %s: step %+d in %s with condition %s" % (nm, st, where, op))
    var = view.locals.get(d)
    ws = view.writes.get(d, [])
    if var is None or var.get("init") is None:
        raise NotImplementedError("variable %s has no initial value" % nm)
    # (2) search variable
    if len(ws) == 1 and ws[0].get("k") == "Un" and ws[0].get("op") == "--":
        wl = [l for l in enclosing(view, ws[0], ("While", "For"))]
        if not wl:
            raise NotImplementedError("decrement of %s is not inside a loop" % nm)
        c = strip(wl[0].get("c") or {})
        if not (c.get("k") == "Bin" and c.get("op") in (">", "!=") and strip(c["lhs"]).get("k") == "Ref" and strip(c["lhs"])["d"] == d) or (wl[0].get("k") == "For" and (wl[0].get("init") is not None or wl[0].get("inc") is not None)):
            raise NotImplementedError("search loop condition %s" % render(c))
        X, B = lin_of(view, var["init"]), lin_of(view, c["rhs"])
        if X is None or B is None:
            raise NotImplementedError("search bounds %s / %s are not level expressions" % (render(var["init"]), render(c["rhs"])))
        desc = "%s = %s; while(%s > %s) --%s" % (nm, X, nm, B, nm)
        # after the search: p in [B, X]; if X > B is guaranteed the loop body ran at least once, hence p <= X-1
        d0 = X - B
        ran = Lin(d0.a, d0.b, d0.c - 1).nonneg(gap)
        inside = any(l is wl[0] for l in loops)
        # the loop may be left (break / return) before the first decrement: then p == X is possible afterwards
        bst = (wl[0].get("body") or {}).get("s") if (wl[0].get("body") or {}).get("k") == "Block" else [wl[0].get("body") or {}]
        for st_ in bst or []:
            if any(x is ws[0] for x in walk(st_)):
                break
            if any(x.get("k") in ("Break", "Return", "Goto") for x in walk(st_)):
                ran = False
                break
        if ran and not inside:
            return B, X.shift(-1), desc
        return B, X, desc
    # (3) result variable
    if ws and all(w.get("k") == "Assign" and w.get("op") == "=" for w in ws):
        lo, hi, d0 = expr_interval(view, view.byid.get(view.decl_stmt.get(d)) or site, var["init"], busy)
        parts = [d0]
        for w in ws:
            g = min(gap, site_gap(view, w))
            l2, h2, d2 = expr_interval(view, w, w["rhs"], busy)
            lo, hi = lin_min(lo, l2, g), lin_max(hi, h2, g)
            if lo is None or hi is None:
                raise NotImplementedError("the values assigned to %s (%s, %s) are not comparable for all level ranges" % (nm, d0, d2))
            parts.append(d2)
        return lo, hi, "%s in {%s}" % (nm, ", ".join(parts))
    raise NotImplementedError("variable %s is neither a loop variable, a descending search variable nor a result variable (initialised, then only assigned)" % nm)


def index_interval(view, sub, idx):
    """symbolic interval [lo, hi] (Lin) of the values the subscript expression idx can take at site sub,
    the guaranteed gap last - top >= gap at that site, and a description; raises NotImplementedError(text)"""
    gap = site_gap(view, sub)
    e = strip(idx)
    if e.get("k") == "Un" and e.get("op") == "--" and not e.get("post"):
        # `_counters[--p]` inside the search loop `while(p > B)`: the decremented value lies in [B, X-1]
        t = strip(e["e"])
        if t.get("k") != "Ref" or t.get("dk") != "local":
            raise NotImplementedError("subscript %s is not a loop or search variable" % render(idx))
        var = view.locals.get(t["d"])
        ws = view.writes.get(t["d"], [])
        wl = enclosing(view, e, ("While", "For", "Do"))
        c = strip(wl[0].get("c") or {}) if wl else {}
        if var is None or var.get("init") is None or len(ws) != 1 or ws[0] is not e or not wl or wl[0].get("k") != "While" or not (
                c.get("k") == "Bin" and c.get("op") == ">" and strip(c["lhs"]).get("k") == "Ref" and strip(c["lhs"])["d"] == t["d"]):
            raise NotImplementedError("pre-decremented subscript %s outside a search loop `while(%s > bound)`" % (render(idx), t.get("n")))
        X, B = lin_of(view, var["init"]), lin_of(view, c["rhs"])
        if X is None or B is None:
            raise NotImplementedError("search bounds %s / %s are not level expressions" % (render(var["init"]), render(c["rhs"])))
        return B, X.shift(-1), gap, "%s = %s; while(%s > %s) --%s" % (t.get("n"), X, t.get("n"), B, t.get("n"))
    lo, hi, desc = expr_interval(view, sub, idx)
    return lo, hi, gap, desc


def lin_eq(a, b):
    return (a.a, a.b, a.c) == (b.a, b.b, b.c)


def loop_bounds_exact(view, site, idx):
    """the subscript is the induction variable of an enclosing counting loop whose start and bound are level expressions
    (then the loop visits exactly the interval var_interval reports), or a level expression itself"""
    if lin_of(view, idx) is not None:
        return True
    e = view.value(idx)
    if e.get("k") != "Ref":
        return False
    for l in enclosing(view, site, ("For", "While", "Do")):
        sh = for_shape(view, l)
        if sh is not None and sh["d"] == e.get("d") and sh["init"] is not None and sh["cond"] is not None:
            return lin_of(view, sh["init"]) is not None and lin_of(view, sh["cond"][1]) is not None
    return False


BIG = 10 ** 6       # stands for "up to the end of the array" (size() is not related to the level range here)


def iter_offset(view, site, it, depth=0):
    """(lo, hi, text, exact) of the element offset an iterator / pointer into _counters denotes:
    _counters.begin() [+ e]..., _counters.data() + e, &_counters[e], _counters.end()"""
    x = view.value(it)
    k = x.get("k")
    if depth > 8:
        raise NotImplementedError("iterator expression %s" % render(it))
    if k in ("Construct", "TempObj") and len(x.get("a", [])) == 1:
        return iter_offset(view, site, x["a"][0], depth + 1)
    if k == "MCall" and mgmodel.is_this_member(x.get("obj") or {}, "_counters") and not x.get("a"):
        if x.get("n") in ("begin", "cbegin", "data"):
            return Lin(0, 0, 0), Lin(0, 0, 0), "0", True
        if x.get("n") in ("end", "cend"):
            return Lin(1, 0, BIG), Lin(1, 0, BIG), "size", True
    if k == "Un" and x.get("op") == "&":
        e = strip(x["e"])
        if e.get("k") == "OpCall" and e.get("op") == "[]" and mgmodel.is_this_member(e["a"][0], "_counters"):
            lo, hi, d = expr_interval(view, site, e["a"][1])
            return lo, hi, d, lin_eq(lo, hi)
    if (k == "OpCall" and x.get("op") in ("+", "-") and len(x.get("a", [])) == 2) or (k == "Bin" and x.get("op") in ("+", "-")):
        a, b = (x["a"][0], x["a"][1]) if k == "OpCall" else (x["lhs"], x["rhs"])
        lo, hi, d, ex = iter_offset(view, site, a, depth + 1)
        l2, h2, d2 = expr_interval(view, site, b)
        if x["op"] == "+":
            return lo + l2, hi + h2, ("%s+%s" % (d, d2)).replace("0+", ""), ex and lin_eq(l2, h2)
        return lo - h2, hi - l2, "%s-(%s)" % (d, d2), ex and lin_eq(l2, h2)
    raise NotImplementedError("iterator expression %s into _counters is not begin()/data() plus an index expression" % render(it))


def check_w_counters(ck, view, inst, inner_event_ids):
    """every subscript of the W-cycle counter array is an absolute level in [top, last]; the reset at cycle entry
    covers every counter that is read, incremented, re-zeroed or checked later"""
    rule = "E2.w-counters"
    subs = []
    for n in walk(view.fn.body):
        if n.get("k") == "OpCall" and n.get("op") == "[]" and len(n.get("a", [])) == 2 and mgmodel.is_this_member(n["a"][0], "_counters"):
            subs.append(n)
        elif n.get("k") == "MCall" and n.get("n") == "at" and len(n.get("a", [])) == 1 and mgmodel.is_this_member(n.get("obj") or {}, "_counters"):
            # _counters.at(i): the same subscript (normalised to the operator[] shape)
            subs.append({"k": "OpCall", "op": "[]", "i": n["i"], "l": n.get("l"), "a": [n["obj"], n["a"][0]], "at": n})
    opaque = [n for n in walk(view.fn.body) if n.get("k") == "MCall" and (n.get("obj") is None or strip(n["obj"]).get("k") == "This")
              and n.get("n") not in mgmodel.HELPERS and n.get("n") != "name" and not n.get("cconst")]
    if opaque:
        # a member function that could not be inlined may reset / walk the counters itself
        ck.incomplete(rule, "%s: call of the member function %s() (line %s), whose effect on _counters is not modelled" % (inst, opaque[0].get("n"), opaque[0].get("l")))
        return
    if not subs:
        ck.incomplete(rule, "%s: no subscript of _counters found" % inst)
        return
    sub_bases = {id(strip(n["a"][0])) for n in subs}
    # std::fill / std::fill_n over an iterator (or pointer) range of _counters: the loop `for(k in [first, last)) _counters[k] = v`
    fills = []
    fill_members = set()
    for n in walk(view.fn.body):
        if n.get("k") == "Call" and (n.get("callee") or "").rsplit("::", 1)[-1] in ("fill", "fill_n") and (n.get("callee") or "").startswith("std::") and len(n.get("a", [])) == 3:
            mem = [x for a in n["a"][:2] for x in walk(a) if mgmodel.is_this_member(x, "_counters")]
            if mem:
                fills.append(n)
                fill_members |= {id(x) for x in mem}
    for n in walk(view.fn.body):
        if mgmodel.is_this_member(n, "_counters") and id(strip(n)) not in sub_bases and id(n) not in sub_bases and id(n) not in fill_members:
            par = view.parent.get(n.get("i"))
            ck.incomplete(rule, "%s: _counters is used other than by subscripting or std::fill (%s, line %s): assign/iterator idioms are not modelled" % (inst, render(par)[:60] if par else "?", n.get("l")))
            return
    wloop = loop_of(view, inner_event_ids)
    wids = {x.get("i") for x in walk(wloop)} if wloop is not None else set()
    first_inner = min(inner_event_ids, key=lambda e: (view.byid[e].get("l") or 0)) if inner_event_ids else None
    TOP, LAST = Lin(0, 1, 0), Lin(1, 0, 0)
    sites = []
    for n in subs:
        par = view.parent.get(n["i"])
        while par is not None and par.get("k") == "Cast":
            par = view.parent.get(par["i"])
        kind = "read"
        if par is not None and par.get("k") == "Assign" and strip(par["lhs"]).get("i") == n["i"]:
            z = view.value(par["rhs"])
            kind = "zero" if (par.get("op") == "=" and z.get("k") == "Int" and int(z["v"]) == 0) else "write"
        elif par is not None and par.get("k") == "Un" and par.get("op") in ("++", "--"):
            kind = "incr"
        try:
            lo, hi, gap, desc = index_interval(view, n, n["a"][1])
        except NotImplementedError as ex:
            ck.incomplete(rule, "%s: %s (line %s)" % (inst, ex, n.get("l")))
            return
        sites.append({"n": n, "kind": kind, "lo": lo, "hi": hi, "gap": gap, "desc": desc, "inw": n["i"] in wids, "idx": render(n["a"][1]),
                      "exact": loop_bounds_exact(view, n, n["a"][1])})
    for n in fills:
        try:
            nm = n["callee"].rsplit("::", 1)[-1]
            flo, fhi, fd, fexact = iter_offset(view, n, n["a"][0])
            if nm == "fill":
                elo, ehi, ed, eexact = iter_offset(view, n, n["a"][1])
            else:
                clo, chi, cd = expr_interval(view, n, n["a"][1])
                elo, ehi, ed, eexact = flo + clo, fhi + chi, "%s+%s" % (fd, cd), fexact and lin_eq(clo, chi)
        except NotImplementedError as ex:
            ck.incomplete(rule, "%s: %s (line %s)" % (inst, ex, n.get("l")))
            return
        z = view.value(n["a"][2])
        kind = "zero" if (z.get("k") == "Int" and int(z["v"]) == 0) else "write"
        sites.append({"n": n, "kind": kind, "lo": flo, "hi": ehi.shift(-1), "gap": site_gap(view, n), "desc": "std::%s over [%s, %s)" % (nm, fd, ed), "inw": n["i"] in wids,
                      "idx": "%s .. %s-1" % (fd, ed), "exact": fexact and eexact})
    # a reset at cycle entry counts as covering [lo, hi] only if its bounds are exact (not themselves ranges of a variable)
    entry = [s for s in sites if s["kind"] == "zero" and s["exact"] and not s["inw"] and first_inner is not None
             and first_inner in view.flow_from(s["n"]["i"])[0] and s["n"]["i"] not in view.flow_from(first_inner)[0]]
    uses = [s for s in sites if s not in entry]
    # adjacent / overlapping reset loops are merged into one interval
    merged = [dict(e) for e in entry]
    changed = True
    while changed and len(merged) > 1:
        changed = False
        for a in merged:
            for b2 in merged:
                if a is b2:
                    continue
                g = min(a["gap"], b2["gap"])
                if (b2["lo"] - a["lo"]).nonneg(g) and (a["hi"].shift(1) - b2["lo"]).nonneg(g):
                    a["hi"] = b2["hi"] if (b2["hi"] - a["hi"]).nonneg(g) else a["hi"]
                    a["gap"] = g
                    merged.remove(b2)
                    changed = True
                    break
            if changed:
                break
    cover = merged
    if not entry:
        ck.ob(rule, "%s/entry-reset" % inst, False, "no loop zeroes _counters before the W-cycle iterations (documented: at the beginning of each W-cycle all peak counters are reset to 0)",
              view.fn.file, view.fn.line)
    else:
        ck.ob(rule, "%s/entry-reset" % inst, True, "; ".join("_counters[%s] = 0 for %s in [%s, %s] (%s)" % (s["idx"], s["idx"], s["lo"], s["hi"], s["desc"]) for s in entry),
              view.fn.file, entry[0]["n"].get("l"))
    seen = {}
    for s in uses:
        key = "%s/%s _counters[%s]" % (inst, {"read": "read", "incr": "increment", "zero": "inner reset", "write": "write"}[s["kind"]], s["idx"])
        seen[key] = seen.get(key, 0) + 1
        if seen[key] > 1:
            key += "#%d" % seen[key]
        problems = []
        if not (s["lo"] - TOP).nonneg(s["gap"]) or not (LAST - s["hi"]).nonneg(s["gap"]):
            problems.append("index range [%s, %s] is not within the absolute level range [top, last] of this multigrid" % (s["lo"], s["hi"]))
        if entry:
            cov = [e for e in cover if (s["lo"] - e["lo"]).nonneg(s["gap"]) and (e["hi"] - s["hi"]).nonneg(s["gap"])]
            if not cov:
                e = cover[0]
                why = []
                if not (s["lo"] - e["lo"]).nonneg(s["gap"]):
                    why.append("starts at %s > %s" % (e["lo"], s["lo"]))
                if not (e["hi"] - s["hi"]).nonneg(s["gap"]):
                    why.append("ends at %s < %s for some 0 <= top_level < last_level" % (e["hi"], s["hi"]))
                problems.append("counters [%s, %s] are used here but the reset at cycle entry covers only [%s, %s] (%s): counters of a previous application survive" % (
                    s["lo"], s["hi"], e["lo"], e["hi"], ", ".join(why)))
        ck.ob(rule, key, not problems, "; ".join(problems) if problems else "index in [%s, %s] (%s): absolute level, covered by the entry reset" % (s["lo"], s["hi"], s["desc"]),
              view.fn.file, s["n"].get("l"), sample={"range": "[%s, %s]" % (s["lo"], s["hi"]), "from": s["desc"]})
    # the level the triple prol / peak / rest visits is the level whose counter this iteration increments ("increment the
    # counter of our peak level"): both are <variable + constant> over one variable that is not written in between.  The
    # majority offset of cycle_labels() hides a uniform shift of all three level arguments; this comparison does not.
    # ... and it is an intermediate level: prol / rest at level l touch level l+1, so l <= last-1 (and l >= top)
    seen_rng = set()
    for e in inner_event_ids:
        ev = classify(view, e)
        lv = ev.get("level") if ev else None
        if lv is None or lv[0] != "v" or lv[1] not in view.locals or (lv[1], lv[2]) in seen_rng:
            continue
        seen_rng.add((lv[1], lv[2]))
        try:
            lo, hi, desc = var_interval(view, view.byid[e], {"d": lv[1], "n": view.level_name((lv[0], lv[1], 0))})
        except (NotImplementedError, KeyError):
            continue
        lo, hi = lo.shift(lv[2]), hi.shift(lv[2])
        g = site_gap(view, view.byid[e])
        okr = (lo - TOP).nonneg(g) and (LAST.shift(-1) - hi).nonneg(g)
        ck.ob(rule, "%s/peak level %s within [top, last-1]" % (inst, view.level_name(lv)), okr,
              "visited level in [%s, %s] (%s)" % (lo, hi, desc) + ("" if okr else ": not within [top, last-1] — the helper would touch a level outside the level range of this multigrid"),
              view.fn.file, view.byid[e].get("l"))
    incs = [s for s in sites if s["kind"] == "incr" and s["inw"]]
    if len(incs) == 1 and inner_event_ids:
        ilv = view.level(incs[0]["n"]["a"][1])
        inc_id = incs[0]["n"]["i"]
        par = view.parent.get(inc_id)
        while par is not None and view.pos(inc_id) is None:
            inc_id, par = par.get("i"), view.parent.get(par.get("i"))
        if ilv is not None and ilv[0] == "v" and view.pos(inc_id) is not None:
            between = view.flow_from(inc_id, stop=tuple(inner_event_ids))[0]
            if not any(w.get("i") in between for w in view.writes.get(ilv[1], [])):
                bad = []
                same = 0
                for e in inner_event_ids:
                    ev = classify(view, e)
                    lv = ev.get("level") if ev else None
                    if lv is None or lv[0] != "v" or lv[1] != ilv[1] or e not in between and e not in view.flow_from(inc_id)[0]:
                        continue
                    same += 1
                    if lv[2] != ilv[2]:
                        bad.append("%s(%s)" % (ev["helper"], view.level_name(lv)))
                if same:
                    ck.ob(rule, "%s/visited peak is the counted level" % inst, not bad,
                          ("%s while the counter of level %s is incremented: the visited level is not the peak level found by the counter search" % (", ".join(bad), view.level_name(ilv)))
                          if bad else "prol / peak / rest visit level %s, whose counter is incremented" % view.level_name(ilv),
                          view.fn.file, incs[0]["n"].get("l"))


# -------------------------------------------------------------------------------------------------
# roles
# -------------------------------------------------------------------------------------------------

SMOOTH_ROLE = {   # helper -> (smoother kind, (vec_cor field, vec_def field))
    "_apply_rest": ("pre", ("sol", "rhs")),          # pre-smoother solves from scratch: sol := S(rhs)
    "_apply_prol": ("post", ("cor", "def")),         # post-smoother corrects: cor := S(def)
    "_apply_smooth_def": ("param", ("cor", "def")),
    "_apply_coarse": ("coarse", ("sol", "rhs")),
}


def lv_plus(lv, k):
    return None if lv is None else lv[:-1] + (lv[-1] + k,)


def vec(o, field=None):
    return o is not None and o[0] == "vec" and (field is None or o[2] == field)


def role_check(view, ev):
    """-> (ok, description, expectation)"""
    k = ev["kind"]
    R = view.role
    h = view.name

    def same(L, *objs):
        return all(o is not None and o[0] in ("vec", "smo") and o[1] == L for o in objs)
    if k == "smooth":
        s = ev["smoother"]
        want = SMOOTH_ROLE.get(h)
        desc = "%s.apply(vec_cor=%s, vec_def=%s)" % ("smoother" if s[0] == "param" else "%s-smoother@%s" % (s[2], view.level_name(s[1])),
                                                       R(ev["cor_node"]), R(ev["def_node"]))
        if want is None:
            return None, desc, "no smoother call expected in %s" % h
        exp = "%s smoother of the level applied as (vec_cor=%s, vec_def=%s) of the same level" % (want[0], want[1][0], want[1][1])
        c, d = ev["cor"], ev["def"]
        ok = vec(c, want[1][0]) and vec(d, want[1][1]) and c[1] == d[1]
        if want[0] == "param":
            ok = ok and s[0] == "param"
        else:
            ok = ok and s[0] == "smo" and s[2] == want[0] and s[1] == c[1]
        return ok, desc, exp
    if k == "defect":
        L = ev["mat"][1]
        ng = neg_of(view, ev["alpha"])
        at = "-1" if (ng is not None and is_one(view, ng)) else re.sub(r"FEAT::[\w:<>, ]*::", "", render(ev["alpha"]))
        desc = "matrix@%s.apply(r=%s, x=%s, y=%s, alpha=%s)" % (view.level_name(L), R(ev["nodes"]["r"]), R(ev["nodes"]["x"]), R(ev["nodes"]["y"]), at)
        ok = vec(ev["r"], "def") and vec(ev["x"], "sol") and vec(ev["y"], "rhs") and same(L, ev["r"], ev["x"], ev["y"]) and ng is not None and is_one(view, ng)
        return ok, desc, "def := rhs - A*sol with matrix and vectors of one level (alpha = -1)"
    if k == "matvec":
        L = ev["mat"][1]
        desc = "matrix@%s.apply(r=%s, x=%s)" % (view.level_name(L), R(ev["nodes"]["r"]), R(ev["nodes"]["x"]))
        return vec(ev["r"], "tmp") and vec(ev["x"], "cor") and same(L, ev["r"], ev["x"]), desc, "tmp := A*cor on one level"
    if k in ("filter_def", "filter_cor"):
        L = ev["fil"][1]
        desc = "filter@%s.%s(%s)" % (view.level_name(L), k, R(ev["vec_node"]))
        allowed = ("def", "rhs", "tmp") if k == "filter_def" else ("cor", "sol")
        return vec(ev["vec"]) and ev["vec"][2] in allowed and ev["vec"][1] == L, desc, "%s on a %s vector (%s) of the filter's own level" % (k, "dual" if k == "filter_def" else "primal", "/".join(allowed))
    if k in ("rest", "prol"):
        L = ev["tra"][1]
        desc = "transfer@%s.%s(vec_fine=%s, vec_coarse=%s)" % (view.level_name(L), k, R(ev["nodes"]["vec_fine"]), R(ev["nodes"]["vec_coarse"]))
        ff, cf = ("def", "rhs") if k == "rest" else ("cor", "sol")
        ok = vec(ev["fine"], ff) and vec(ev["coarse"], cf) and ev["fine"][1] == L and ev["coarse"][1] == lv_plus(L, 1)
        return ok, desc, ("restriction takes the fine defect into the coarse rhs (def@l -> rhs@l+1)" if k == "rest" else "prolongation takes the coarse solution into the fine correction (sol@l+1 -> cor@l)")
    if k in ("rest_send", "prol_recv"):
        L = ev["tra"][1]
        desc = "transfer@%s.%s(%s)" % (view.level_name(L), k, R(ev["nodes"]["vec_fine"]))
        return vec(ev["fine"], "def" if k == "rest_send" else "cor") and ev["fine"][1] == L, desc, "ghost transfer operand is %s of the same level" % ("def" if k == "rest_send" else "cor")
    if k == "axpy":
        d, s = ev["dst"], ev["src"]
        desc = "%s.axpy(%s, %s)" % (R(ev["n"]["obj"]), R(ev["src_node"]), render(ev["alpha"]))
        ok = vec(d) and vec(s) and d[1] == s[1] and (d[2], s[2]) in (("sol", "cor"), ("def", "tmp"))
        return ok, desc, "sol += w*cor or def -= w*tmp on one level"
    if k == "scale":
        d, s = ev["dst"], ev["src"]
        desc = "%s.scale(%s, %s)" % (R(ev["n"]["obj"]), R(ev["src_node"]), render(ev["alpha"]))
        return vec(d, "sol") and vec(s, "cor") and d[1] == s[1], desc, "sol := w*cor on one level (admissible only where the solution is zero: decided by E8.sol-epoch)"
    if k == "copy":
        d, s = ev["dst"], ev["src"]
        desc = "%s.copy(%s)" % (R(ev["dst_node"]), R(ev["src_node"]))
        if h == "apply":
            ok = (vec(d, "rhs") and d[1] == ("top", 0) and s == ("param", "vec_def")) or (d == ("param", "vec_cor") and vec(s, "sol") and s[1] == ("top", 0))
            return ok, desc, "rhs@top := vec_def / vec_cor := sol@top"
        ok = vec(d) and vec(s) and d[1] == s[1] and (d[2], s[2]) in (("def", "rhs"), ("sol", "rhs"))
        if ok and (d[2] == "sol") != (h == "_apply_coarse"):
            ok = False
        return ok, desc, "def := rhs (no pre-smoother) / sol := rhs (identity coarse solver) on one level"
    if k == "format":
        desc = "%s.format()" % R(ev["n"]["obj"])
        return vec(ev["dst"], "sol") and ev["zero"], desc, "only the solution vector is zeroed"
    if k == "dot":
        a, b = ev["a"], ev["b"]
        desc = "%s.dot(%s)" % (R(ev["n"]["obj"]), R(ev["n"]["a"][0]))
        return vec(a) and vec(b) and a[1] == b[1], desc, "inner products of vectors of one level"
    if k == "helper":
        return None, ev["helper"], ""
    return None, k, ""


def check_roles(ck, view, inst_prefix, events):
    seen = {}
    for e, ev in events:
        if ev["kind"] in ("helper",):
            continue
        if ev["kind"] == "unknown":
            ck.incomplete("E1.level-roles", "%s: %s at line %s is outside the operation table" % (inst_prefix, ev["why"], ev["n"].get("l")))
            continue
        ok, desc, exp = role_check(view, ev)
        if ok and view.name in ("_apply_smooth_def", "_apply_smooth_peak") and view.fn.params:
            # a helper that works on the level given by its first parameter touches objects of that level only
            own = ("v", view.fn.params[0]["d"], 0)
            lv_ = [o[1] for o in (ev.get(k_) for k_ in LEVEL_OPERANDS) if isinstance(o, tuple) and len(o) >= 2 and isinstance(o[1], tuple)]
            if any(l_ != own for l_ in lv_):
                ok, exp = False, "objects of level %s in a helper that works on the level `%s` it is given" % (
                    ", ".join(sorted({view.level_name(l_) for l_ in lv_ if l_ != own})), view.fn.params[0]["n"])
        unresolved = [k for k in ("cor", "def", "r", "x", "y", "vec", "fine", "coarse", "dst", "src", "a", "b") if k in ev and ev[k] is None]
        if ok is False and unresolved:
            ck.incomplete("E1.level-roles", "%s: %s: operand(s) %s could not be resolved to a level vector or parameter (line %s)" % (inst_prefix, desc, ", ".join(unresolved), ev["n"].get("l")))
            continue
        if ok is None:
            ck.incomplete("E1.level-roles", "%s: %s: %s" % (inst_prefix, desc, exp))
            continue
        key = "%s/%s" % (inst_prefix, desc)
        seen[key] = seen.get(key, 0) + 1
        if seen[key] > 1:
            key += "#%d" % seen[key]
        ck.ob("E1.level-roles", key, ok, ("ok: " if ok else "wrong operand: ") + exp, view.fn.file, ev["n"].get("l"),
              sample={"call": desc, "expected": exp})


# -------------------------------------------------------------------------------------------------
# level set-up: roles along push_level -> MultiGridLevelStd constructor -> members -> getters
# -------------------------------------------------------------------------------------------------

ROLE_TOKENS = (("pre", "pre"), ("post", "post"), ("peak", "peak"), ("crs", "coarse"), ("coarse", "coarse"), ("matrix", "matrix"),
               ("filter", "filter"), ("transfer", "transfer"), ("trans", "transfer"), ("operat", "transfer"), ("operator", "transfer"))


def role_of_name(name):
    """role of an identifier from its name tokens (pre/post/peak smoother, coarse solver, matrix, filter, transfer)"""
    toks = [t for t in re.split(r"[_\W]+", (name or "").lower()) if t]
    for t in toks:
        for key, role in ROLE_TOKENS:
            if t == key:
                return role
    for t in toks:
        for key, role in ROLE_TOKENS:
            if len(key) >= 4 and t.startswith(key):
                return role
    return None


def check_level_setup(ck, facts, hier_cls, fns_h, sc):
    """the object a caller hands to push_level as pre-/post-/peak-smoother, coarse solver, matrix, filter, transfer reaches the
    getter of the same role: argument role == constructor parameter role (positional forwarding through make_shared / new),
    constructor parameter role == member role (initialiser list), member role == getter role"""
    rule = "E1.level-setup-roles"
    targs = hier_cls[hier_cls.index("<"):] if "<" in hier_cls else ""
    std_cls = "FEAT::Solver::MultiGridLevelStd" + targs
    std_fns = [f for f in facts.functions if f.tk != "pattern" and f.cls == std_cls]
    ctors = [f for f in std_fns if f.d.get("ctor") and f.params]
    if not ctors:
        ck.incomplete(rule, "%s: no constructor of MultiGridLevelStd instantiated" % sc)
        return
    # (1) forwarding calls in push_level
    pushes = [f for f in facts.functions if f.tk != "pattern" and f.cls == hier_cls and f.name == "push_level" and len(f.params) >= 3]
    if not pushes:
        ck.incomplete(rule, "%s: no push_level(matrix, filter, ...) overload instantiated" % sc)
    inl = norm_c08.Inliner(facts)
    for f in sorted(pushes, key=lambda f: len(f.params)):
        nparams = len(f.params)
        # an overload that forwards to its sibling (or builds the level in a helper) is analysed with that callee inlined
        f = inl.inline(f, want=lambda call, cal: not (cal.name == "push_level" and len(cal.params) < 3))
        view = FnView(f)
        sites = []
        for n in walk(f.body):
            if n.get("k") == "Call" and n.get("callee", "").endswith("make_shared") and "MultiGridLevelStd" in (n.get("cfull") or "").split(",")[0]:
                sites.append((n, None))
            elif n.get("k") in ("Construct", "New", "TempObj") and "MultiGridLevelStd" in (n.get("ccls") or n.get("callee") or ""):
                if n.get("a") and len(n.get("a")) >= 3:
                    sites.append((n, n.get("pn")))
        inst = "%s::push_level/%d" % (sc.replace("MultiGrid<", "MultiGridHierarchy<"), nparams)
        if not sites:
            ck.incomplete(rule, "%s: construction of the MultiGridLevelStd object not found (make_shared / new)" % inst)
            continue
        for n, pn in sites:
            args = n.get("a", [])
            if pn is None:
                cands = [c for c in ctors if len(c.params) == len(args)] or sorted([c for c in ctors if len(c.params) > len(args)], key=lambda c: len(c.params))[:1]
                if len(cands) != 1:
                    ck.incomplete(rule, "%s: constructor of MultiGridLevelStd with %d parameters not identified" % (inst, len(args)))
                    continue
                pn = [p["n"] for p in cands[0].params]
            for k, a in enumerate(args):
                av = view.value(a)
                while av.get("k") in ("Construct", "TempObj") and len(av.get("a", [])) == 1:
                    av = view.value(av["a"][0])      # copy / move construction of the by-value argument
                if av.get("k") == "Call" and av.get("callee", "").endswith("std::move") and av.get("a"):
                    av = view.value(av["a"][0])
                if k >= len(pn):
                    break
                if av.get("k") in ("Null",) or (av.get("k") in ("Construct", "TempObj") and not av.get("a")):
                    continue
                nm = av.get("n") if av.get("k") == "Ref" else None
                ra, rp = role_of_name(nm), role_of_name(pn[k])
                if nm is None or ra is None or rp is None:
                    ck.incomplete(rule, "%s: argument %d (%s -> constructor parameter %s): role not recognisable from the names" % (inst, k + 1, render(a), pn[k]))
                    continue
                ck.ob(rule, "%s/%s" % (inst, ra), ra == rp,
                      "argument %d `%s` (%s) is received by constructor parameter `%s` (%s)%s" % (k + 1, nm, ra, pn[k], rp,
                      "" if ra == rp else ": forwarded positionally into the wrong slot — the %s object is used as %s" % (ra, rp)), f.file, n.get("l"))
    # (2) constructor initialisers, (3) getters
    for c in sorted(ctors, key=lambda c: len(c.params)):
        inst = "%s::MultiGridLevelStd/%d" % (sc.replace("MultiGrid<", "MultiGridLevelStd<"), len(c.params))
        pd = {p["d"]: p["n"] for p in c.params}
        for ini in c.d.get("inits") or []:
            refs = [x for x in walk(ini.get("init")) if x.get("k") == "Ref" and x.get("d") in pd]
            if not refs or not ini.get("member"):
                continue
            rm, rp = role_of_name(ini["member"]), role_of_name(refs[0]["n"])
            if rm is None or rp is None:
                ck.incomplete(rule, "%s: member %s initialised from %s: role not recognisable" % (inst, ini["member"], refs[0]["n"]))
                continue
            ck.ob(rule, "%s/%s" % (inst, rm), rm == rp, "member `%s` (%s) is initialised from parameter `%s` (%s)" % (ini["member"], rm, refs[0]["n"], rp), c.file, ini.get("l"))
    for g in sorted(std_fns, key=lambda g: g.name):
        if not g.name.startswith("get_") or g.params:
            continue
        rg = role_of_name(g.name[4:])
        mem = [x for x in walk(g.body) if x.get("k") == "Member" and strip(x.get("b") or {"k": "This"}).get("k") == "This"]
        inst = "%s::%s" % (sc.replace("MultiGrid<", "MultiGridLevelStd<"), g.name)
        if rg is None or len(mem) != 1 or role_of_name(mem[0].get("n")) is None:
            ck.incomplete(rule, "%s: getter does not return one member with a recognisable role" % inst)
            continue
        rm = role_of_name(mem[0]["n"])
        ck.ob(rule, inst, rg == rm, "returns member `%s` (%s)" % (mem[0]["n"], rm), g.file, g.line)


# -------------------------------------------------------------------------------------------------
# solver registration: every solver the helpers may apply is registered for init/done on every level
# -------------------------------------------------------------------------------------------------

def check_solver_registration(ck, facts, hier_cls, used_kinds, sc):
    """LevelInfo::init_symbolic registers (unique_solvers) the result of every get_smoother_* / get_coarse_solver getter whose
    solver an _apply_* helper may apply, on every path (not depending on the position of the level), and the four
    init/done functions of LevelInfo forward to every registered solver"""
    rule = "E7.solver-registration"
    li_cls = hier_cls + "::LevelInfo"
    fns = {f.name: f for f in facts.functions if f.tk != "pattern" and f.cls == li_cls}
    inst = sc.replace("MultiGrid<", "MultiGridHierarchy<") + "::LevelInfo"
    if "init_symbolic" not in fns:
        ck.incomplete(rule, "%s: init_symbolic not instantiated" % inst)
        return
    inl = norm_c08.Inliner(facts)
    keep = lambda call, cal: cal.name not in ("_push_solver", "init_symbolic", "init_numeric", "done_numeric", "done_symbolic")
    fns = {nm: inl.inline(g, want=keep) for nm, g in fns.items()}
    f = fns["init_symbolic"]
    view = FnView(f)
    # `if(ptr) _push_solver(ptr);` repeats _push_solver's own `if(solver == nullptr) return;`: not a conditional registration
    g = norm_c08.callee_guarded_ifs(view, inl.bydecl)
    if g:
        f = norm_c08.without_skip_edges(f, view, set(g))
        view = FnView(f)

    def getter_kind(n, depth=0):
        n = view.value(n)
        if depth > 8:
            return None
        if n.get("k") == "MCall" and n.get("n") in mgmodel.SMOOTHER_GETTERS:
            return mgmodel.SMOOTHER_GETTERS[n["n"]]
        if n.get("k") == "MCall" and n.get("n") == "get" and n.get("obj") is not None:
            return getter_kind(n["obj"], depth + 1)
        if n.get("k") == "OpCall" and n.get("op") in ("->", "*") and n.get("a"):
            return getter_kind(n["a"][0], depth + 1)
        if n.get("k") in ("Construct", "TempObj") and len(n.get("a", [])) == 1:
            return getter_kind(n["a"][0], depth + 1)
        return None
    pushes = {}
    unresolved = []
    for e in [e for b in view.cfg.blocks.values() for e in b["el"]]:
        n = view.byid.get(e)
        if n and n.get("k") == "MCall" and n.get("n") == "_push_solver" and n.get("a"):
            k = getter_kind(n["a"][0])
            if k is None:
                unresolved.append(render(n)[:70])
            else:
                pushes.setdefault(k, []).append(e)
        elif n and n.get("k") == "MCall" and n.get("n") in ("push_back", "emplace_back", "insert") and mgmodel.is_this_member(n.get("obj") or {}, "unique_solvers"):
            k = getter_kind(n["a"][0]) if n.get("a") else None
            if k is None:
                unresolved.append(render(n)[:70])
            else:
                pushes.setdefault(k, []).append(e)
    for kind in sorted(used_kinds):
        key = "%s::init_symbolic/%s" % (inst, kind)
        ids = pushes.get(kind, [])
        escapes = view.flow_from(None, stop=set(ids))[1] if ids else True
        if escapes and unresolved:
            ck.incomplete(rule, "%s: registration of the %s solver not found on every path, but %s registers a solver that could not be resolved to a getter" % (key, kind, unresolved[0]))
            continue
        opaque = [n2 for n2 in walk(f.body) if n2.get("k") == "MCall" and (n2.get("obj") is None or strip(n2["obj"]).get("k") == "This")
                  and n2.get("n") != "_push_solver" and not n2.get("cconst")]
        opaque += [n2 for n2 in walk(f.body) if n2.get("k") in ("Call", "MCall") and n2.get("n") not in ("clear", "push_back", "emplace_back", "insert", "begin", "end", "rbegin", "rend", "size", "empty")
                   and any(mgmodel.is_this_member(x, "unique_solvers") for a_ in ([n2.get("obj")] + list(n2.get("a", []))) if a_ is not None for x in walk(a_))]
        if escapes and opaque:
            ck.incomplete(rule, "%s: registration of the %s solver not found on every path, but init_symbolic() calls %s (line %s), which is not modelled and may register it" % (
                key, kind, opaque[0].get("n") or opaque[0].get("callee"), opaque[0].get("l")))
            continue
        ck.ob(rule, key, not escapes,
              "the %s solver of the level is registered in unique_solvers on every path" % kind if not escapes else
              ("the %s solver is registered only on some paths of init_symbolic() (conditionally on the level), but the multigrid helpers apply get_%s of whatever level plays that role: "
               "a solver that is never init_symbolic/init_numeric-ed is applied" % (kind, {"coarse": "coarse_solver()"}.get(kind, "smoother_%s()" % kind)) if ids else
               "the %s solver is never registered in unique_solvers although the multigrid helpers apply it" % kind), f.file, (view.byid[ids[0]].get("l") if ids else f.line))
    # propagation loops
    for nm in ("init_symbolic", "init_numeric", "done_numeric", "done_symbolic"):
        g = fns.get(nm)
        key = "%s::%s/forwards" % (inst, nm)
        if g is None:
            ck.incomplete(rule, "%s: function not instantiated" % key)
            continue
        gv = FnView(g)
        found = wrong = None
        for lp in walk(g.body):
            is_for_each = lp.get("k") == "Call" and (lp.get("callee") or "").rsplit("::", 1)[-1] == "for_each" and (lp.get("callee") or "").startswith("std::")
            if lp.get("k") not in ("For", "ForRange", "While") and not is_for_each:
                continue
            if not any(mgmodel.is_this_member(x, "unique_solvers") for x in walk(lp) if x.get("k") == "Member"):
                continue
            # std::for_each(unique_solvers.begin(), unique_solvers.end(), [](SolverType* s) { s->f(); }) is the loop it stands for
            lbody = lp.get("body") if not is_for_each else {"k": "Block", "s": [x for a_ in lp.get("a", [])[2:] for x in walk(a_) if x.get("k") == "Lambda"]}
            for x in walk(lbody or {}):
                if x.get("k") == "MCall" and x.get("obj") is not None and strip(x["obj"]).get("k") != "This" and x.get("n") in ("init_symbolic", "init_numeric", "done_numeric", "done_symbolic"):
                    if x["n"] == nm:
                        found = x
                    else:
                        wrong = x
        if found is None and wrong is None:
            ck.incomplete(rule, "%s: no loop over unique_solvers calling a solver's %s() found" % (key, nm))
            continue
        ck.ob(rule, key, found is not None and wrong is None,
              "every registered solver gets %s()" % nm if found is not None and wrong is None else "the loop over the registered solvers calls %s() instead of %s()" % (wrong.get("n"), nm),
              g.file, (found or wrong).get("l"))


# -------------------------------------------------------------------------------------------------
# apply(): dispatch and hand-over
# -------------------------------------------------------------------------------------------------

def check_apply(ck, view, inst):
    evs = [(e, classify(view, e)) for b in view.cfg.blocks.values() for e in b["el"]]
    evs = [(e, ev) for e, ev in evs if ev]
    cyc_calls = [(e, ev) for e, ev in evs if ev["kind"] == "helper" and ev["helper"] in CYCLES]
    # dispatch: the modes of _cycle under which each cycle call executes (switch cases, if / else-if chains, negated or
    # combined conditions, ternaries are one decision table: norm_c08.contexts / enum_values)
    is_sel = lambda x: mgmodel.is_this_member(x, "_cycle")
    modes = set(CYCLES.values())
    by_mode = {}
    undecided = False
    for e, ev in cyc_calls:
        vals = set()
        for alt in norm_c08.contexts(view, ev["n"]):
            v_ = norm_c08.enum_values(view, is_sel, alt, modes)
            if v_ is None:
                ck.incomplete("E13.cycle-dispatch", "%s: the condition under which %s is called is not a comparison of _cycle with an enumerator of MultiGridCycle" % (inst, ev["helper"]))
                undecided = True
                v_ = set()
            vals |= v_
        if not undecided and vals == modes and not any(is_sel(x) for x in walk(view.fn.body) if x.get("k") == "Member"):
            ck.incomplete("E13.cycle-dispatch", "%s: call of %s does not depend on _cycle" % (inst, ev["helper"]))
            undecided = True
        for m in vals:
            by_mode.setdefault(m, []).append(ev)
    if not undecided:
        for m in sorted(modes - set(by_mode)):
            if any(ev2["kind"] == "unknown" for e2, ev2 in evs):
                ck.incomplete("E13.cycle-dispatch", "%s: no cycle function is called for MultiGridCycle::%s, but apply() contains a call that is not modelled" % (inst, m))
            else:
                ck.ob("E13.cycle-dispatch", "%s/case %s" % (inst, m), False, "no cycle function is called for MultiGridCycle::%s" % m, view.fn.file, view.fn.line)
        for m in sorted(by_mode):
            evs_m = by_mode[m]
            got = sorted({x["helper"] for x in evs_m})
            want = [h for h, c in CYCLES.items() if c == m]
            ck.ob("E13.cycle-dispatch", "%s/case %s" % (inst, m), got == want and len(evs_m) == 1,
                  "MultiGridCycle::%s calls %s" % (m, ", ".join(x["helper"] for x in evs_m)), view.fn.file, evs_m[0]["n"].get("l"))
    # the decision table above is read from the statement structure: a case must not fall through into the next one
    for sw_, a_, b_ in norm_c08.switch_fallthroughs(view.fn.body):
        lab_ = lambda c_: render(strip(c_.get("v") or {})).rsplit("::", 1)[-1] if c_.get("k") == "Case" else "default"
        ck.ob("E13.cycle-dispatch", "%s/case %s falls through" % (inst, lab_(a_)), False,
              "`case %s` (line %s) falls through into `case %s`: both cycle functions run for %s" % (lab_(a_), a_.get("l"), lab_(b_), lab_(a_)), view.fn.file, a_.get("l"))
    # hand-over
    rhs_in = [e for e, ev in evs if ev["kind"] == "copy" and vec(ev["dst"], "rhs") and ev["dst"][1] == ("top", 0) and ev["src"] == ("param", "vec_def")]
    cor_out = [e for e, ev in evs if ev["kind"] == "copy" and ev["dst"] == ("param", "vec_cor") and vec(ev["src"], "sol") and ev["src"][1] == ("top", 0)]
    if not cyc_calls:
        ck.incomplete("E7.hand-over", "%s: no cycle call found in apply()" % inst)
        return evs
    unknown = [ev for e, ev in evs if ev["kind"] == "unknown"]
    for ev in unknown:
        ck.incomplete("E7.hand-over", "%s: %s (line %s)" % (inst, ev["why"], ev["n"].get("l")))
    # a hand-over that is not the modelled copy(): the parameter used in some other call
    def other_uses(pname, modelled):
        out = []
        for e2 in [e for b in view.cfg.blocks.values() for e in b["el"]]:
            n2 = view.byid.get(e2)
            if n2 is None or e2 in modelled or not featlib.is_call(n2):
                continue
            direct = [n2.get("obj")] + list(n2.get("a", []))
            if any(x is not None and strip(x).get("k") == "Ref" and strip(x).get("n") == pname for x in direct):
                out.append(n2)
        return out
    if not rhs_in and other_uses("vec_def", set()):
        ck.incomplete("E7.hand-over", "%s: vec_def is not copied by lvl_top.vec_rhs.copy(vec_def) but used in %s" % (inst, render(other_uses("vec_def", set())[0])[:80]))
        return evs
    if not cor_out and other_uses("vec_cor", set()):
        ck.incomplete("E7.hand-over", "%s: vec_cor is not defined by vec_cor.copy(lvl_top.vec_sol) but used in %s" % (inst, render(other_uses("vec_cor", set())[0])[:80]))
        return evs
    if unknown:
        return evs
    # (a) every path from entry to a cycle call passes rhs@top.copy(vec_def)
    reach, _ = view.flow_from(None, stop=set(rhs_in))
    bad = [e for e, ev in cyc_calls if e in reach]
    ck.ob("E7.hand-over", "%s/rhs(top):=vec_def before cycle" % inst, not bad and bool(rhs_in),
          "every path to a cycle call passes lvl_top.vec_rhs.copy(vec_def)" if not bad and rhs_in else
          "a cycle call (line %s) is reachable without copying vec_def into the top-level rhs" % (view.byid[bad[0]].get("l") if bad else "-"),
          view.fn.file, view.fn.line)
    # (b) every path from a cycle call to a normal exit passes vec_cor.copy(sol@top)
    badb = []
    for e, ev in cyc_calls:
        _, ex = view.flow_from(e, stop=set(cor_out))
        if ex:
            badb.append(ev)
    _, ex0 = view.flow_from(None, stop=set(cor_out))
    ck.ob("E7.hand-over", "%s/vec_cor:=sol(top) after cycle" % inst, not badb and not ex0 and bool(cor_out),
          "every normal exit is preceded by vec_cor.copy(lvl_top.vec_sol) after the cycle" if not badb and not ex0 and cor_out else
          "a normal exit of apply() is reachable %s without copying the top-level solution into vec_cor" % ("after " + badb[0]["helper"] if badb else "from the entry"),
          view.fn.file, view.fn.line)
    # (c) vec_def is const and never cast
    p = view.fn.param("vec_def")
    pt = view.fn.type(p["t"]) if p else ""
    casts = [n for n in walk(view.fn.body) if n.get("k") == "Cast" and n.get("ck") in ("const", "cstyle", "reinterpret")
             and any(x.get("k") == "Ref" and x.get("n") == "vec_def" for x in walk(n))]
    ck.ob("E7.hand-over", "%s/vec_def const" % inst, pt.startswith("const ") and not casts,
          "input defect is taken as %s and never cast" % pt, view.fn.file, view.fn.line)
    return evs


# -------------------------------------------------------------------------------------------------
# peak fallback and adaptive omega
# -------------------------------------------------------------------------------------------------

def check_peak_fallback(ck, view, inst):
    """enumerate the (loop-free) paths of _apply_smooth_peak: the smoother sequence is [peak] if a peak
    smoother is given, else [pre if given] + [post if given]"""
    rule = "E7.peak-fallback"
    cfg = view.cfg
    paths = []

    def nonnull_atom(a):
        """(kind, truth) if atom tests a level smoother pointer"""
        neg = False
        a = strip(a)
        while a.get("k") == "Un" and a.get("op") == "!":
            neg = not neg
            a = strip(a["e"])
        if a.get("k") == "Ref" and a.get("dk") == "local" and view.is_const_local(a["d"]):
            r = nonnull_atom(view.locals[a["d"]]["init"])      # const bool have_peak = bool(smoother_peak);
            return (r[0], r[1] != neg) if r else None
        if a.get("k") in ("Construct", "TempObj") and len(a.get("a", [])) == 1:
            r = nonnull_atom(a["a"][0])
            return (r[0], r[1] != neg) if r else None
        if a.get("k") == "MCall" and a.get("n") == "operator bool":
            o = view.obj(a.get("obj"))
            if o and o[0] == "smo":
                return o[2], neg
        if a.get("k") == "Bin" and a.get("op") in ("!=", "==") :
            for x, y in ((a["lhs"], a["rhs"]), (a["rhs"], a["lhs"])):
                if strip(y).get("k") == "Null":
                    o = view.obj(x)
                    if o and o[0] == "smo":
                        return o[2], neg != (a["op"] == "==")
        return None

    def call_atom(a):
        neg = False
        a = strip(a)
        while a.get("k") == "Un" and a.get("op") == "!":
            neg = not neg
            a = strip(a["e"])
        if a.get("k") == "MCall" and a.get("n") == "_apply_smooth_def":
            return a["i"], neg
        return None

    limit = [0]
    unmodelled = []
    for b0 in cfg.blocks.values():
        for e in b0["el"]:
            ev = classify(view, e)
            if ev and ev["kind"] == "unknown":
                unmodelled.append(ev["why"])
    if unmodelled:
        ck.incomplete(rule, "%s: %s" % (inst, unmodelled[0]))
        return
    other_atoms = []

    def go(b, seq, known, failed, visited):
        limit[0] += 1
        if limit[0] > 20000 or b in visited:
            raise RuntimeError("loop or too many paths")
        blk = cfg.blocks[b]
        seq = list(seq)
        for e in blk["el"]:
            ev = classify(view, e)
            if ev and ev["kind"] == "helper" and ev["helper"] == "_apply_smooth_def":
                seq.append((e, ev))
        succ = view.raw_succ(b)
        if b == cfg.exit or not succ:
            if not blk.get("noreturn"):
                paths.append((seq, dict(known), failed))
            return
        atom = view.branch_atom(b)
        if atom is not None and len(succ) == 2:
            na = nonnull_atom(atom)
            ca = call_atom(atom)
            if na is None and ca is None:
                other_atoms.append(render(atom))
            for idx, s in enumerate(succ):
                if s is None:
                    continue
                truth = (idx == 0)
                k2, f2 = dict(known), failed
                if na is not None:
                    val = truth != na[1]
                    if na[0] in k2 and k2[na[0]] != val:
                        continue
                    k2[na[0]] = val
                elif ca is not None:
                    res = truth != ca[1]     # value of the call result
                    if not res:
                        f2 = True
                go(s, seq, k2, f2, visited | {b})
        else:
            for s in succ:
                if s is not None:
                    go(s, seq, known, failed, visited | {b})
    try:
        go(cfg.entry, [], {}, False, frozenset())
    except RuntimeError as ex:
        ck.incomplete(rule, "%s: paths of _apply_smooth_peak not enumerable (%s)" % (inst, ex))
        return
    combos = {}
    for seq, known, failed in paths:
        kinds = []
        bad = None
        for e, ev in seq:
            s = ev.get("smoother")
            if not s or s[0] != "smo" or ev.get("level") is None or s[1] != ev["level"]:
                bad = "smoother argument %s is not a smoother of the level being smoothed" % render(ev.get("smoother_node"))
                break
            kinds.append(s[2])
            if known.get(s[2]) is not True:
                bad = "%s-smoother is applied on a path that did not establish it is non-null" % s[2]
                break
        if bad is None:
            if known.get("peak") is True:
                exp = ["peak"]
            elif known.get("peak") is False:
                exp = []
                for k2 in ("pre", "post"):
                    if known.get(k2) is True:
                        exp.append(k2)
                    elif known.get(k2) is None:
                        if failed and kinds == exp:
                            break       # aborted before this smoother was considered
                        bad = "no peak smoother: the %s-smoother is never considered on this path (documented fallback: pre- and post-smoother, each if given)" % k2
                        break
            else:
                exp = None
                bad = "the path never tests whether a peak smoother is given"
            if bad is None:
                if failed:
                    if kinds != exp[:len(kinds)]:
                        bad = "smoother sequence %s is not a prefix of %s" % (kinds, exp)
                elif kinds != exp:
                    bad = "smoother sequence %s, documented %s" % (kinds, exp)
        key = "%s/%s" % (inst, ",".join("%s=%s" % (k, "given" if v else "null") for k, v in sorted(known.items())) + ("/aborted" if failed else ""))
        prev = combos.get(key)
        combos[key] = (bad if (prev is None or prev[0] is None) else prev[0], kinds)
    for key, (bad, kinds) in sorted(combos.items()):
        if bad is not None and (other_atoms or "not a smoother of the level" in bad) and ("never tests" in bad or "did not establish" in bad or "never considered" in bad or "not a smoother of the level" in bad):
            # the presence test / smoother may be expressed by a condition or expression outside the table
            ck.incomplete(rule, "%s: %s; branch conditions outside the table: %s" % (key, bad, ", ".join(sorted(set(other_atoms))[:3]) or "-"))
            continue
        ck.ob(rule, key, bad is None, bad or "smoothers applied: %s" % (kinds or "none"), view.fn.file, view.fn.line)


ADAPT_MODES = ("Fixed", "MinEnergy", "MinDefect")      # enumerators of MultiGridAdaptCGC (multigrid.hpp, documented)


def check_adapt_omega(ck, view, inst):
    """MinEnergy: w = <def,cor>/<A cor,cor>;  MinDefect: w = <def,A cor>/<A cor,A cor>  (tmp = A*cor).
    The step length is the scalar handed to `sol.axpy(cor, w)`; every value assigned to it is attributed to the modes of
    _adapt_cgc under which the assignment executes — `switch` cases, `if / else if` chains, ternaries, negated
    conditions and an enclosing `!= Fixed` guard are the same decision table (norm_c08.contexts / enum_values)."""
    rule = "E6.adapt-omega"
    want = {"MinEnergy": (frozenset(["def", "cor"]), frozenset(["tmp", "cor"])),
            "MinDefect": (frozenset(["def", "tmp"]), (frozenset(["tmp"])))}
    # the step-length variable(s)
    wvars = {}
    for b in view.cfg.blocks.values():
        for e in b["el"]:
            ev = classify(view, e)
            if ev and ev["kind"] == "axpy" and vec(ev["dst"], "sol") and vec(ev["src"], "cor"):
                a = strip(ev["alpha"])
                if a.get("k") == "Ref" and a.get("dk") == "local":
                    wvars[a["d"]] = a.get("n")
    universe = set(ADAPT_MODES)
    for n in walk(view.fn.body):
        if n.get("k") == "Ref" and n.get("dk") == "enum" and "MultiGridAdaptCGC::" in (n.get("qn") or ""):
            universe.add(n["qn"].rsplit("::", 1)[-1])
    is_sel = lambda x: mgmodel.is_this_member(x, "_adapt_cgc")

    def dotset(x):
        x = view.value(x)
        if x.get("k") == "MCall" and x.get("n") == "dot" and x.get("a"):
            a, b = view.obj(x.get("obj")), view.obj(x["a"][0])
            if vec(a) and vec(b) and a[1] == b[1]:
                return frozenset([a[2], b[2]])
        return None

    def leaves(x):
        x2 = strip(x)
        if x2.get("k") == "Cond":
            return leaves(x2["then"]) + leaves(x2["else"])
        return [x2]
    table = {}          # mode -> [(formula | None, node, text)]
    problems = []
    for d, nm in wvars.items():
        for w in view.writes.get(d, []):
            if w.get("k") != "Assign" or w.get("op") != "=":
                problems.append("step length %s is modified by %s (line %s)" % (nm, render(w)[:60], w.get("l")))
                continue
            for leaf in leaves(w["rhs"]):
                modes = set()
                for alt in norm_c08.contexts(view, leaf if leaf.get("i") is not None else w):
                    vals = norm_c08.enum_values(view, is_sel, alt, universe)
                    if vals is None:
                        problems.append("condition on _adapt_cgc around `%s` (line %s) is not a comparison with an enumerator" % (render(w)[:50], w.get("l")))
                        vals = set()
                    modes |= vals
                val = view.value(leaf)
                form = None
                if val.get("k") == "Bin" and val.get("op") == "/":
                    num, den = dotset(val["lhs"]), dotset(val["rhs"])
                    if num is not None and den is not None:
                        form = (num, den)
                for m in modes:
                    table.setdefault(m, []).append((form, w, render(val)))
    for sw_, a_, b_ in norm_c08.switch_fallthroughs(view.fn.body):
        if is_sel(view.value(sw_.get("c") or {})):
            ck.ob(rule, "%s/case falls through" % inst, False, "a case of switch(_adapt_cgc) (line %s) falls through into the next one: the later step length overwrites the earlier" % a_.get("l"), view.fn.file, a_.get("l"))
    if not wvars:
        problems.append("no `vec_sol.axpy(vec_cor, <local step length>)` found")
    for p in problems:
        ck.incomplete(rule, "%s: %s" % (inst, p))
    if problems:
        return
    for nm in sorted(set(table) | set(want)):
        if nm not in want:
            continue
        ent = table.get(nm, [])
        if not ent:
            ck.incomplete(rule, "%s: no step length assignment found for MultiGridAdaptCGC::%s" % (inst, nm))
            continue
        forms = {e[0] for e in ent}
        if len(ent) > 1 and len(forms) > 1:
            ck.incomplete(rule, "%s: several different step length assignments execute for MultiGridAdaptCGC::%s (lines %s); which one reaches the update is not decided" % (
                inst, nm, ", ".join(str(e[1].get("l")) for e in ent)))
            continue
        form, w, text = ent[0]
        if form is None:
            ck.incomplete(rule, "%s: %s: step length %s is not a quotient of inner products of level vectors" % (inst, nm, text))
            continue
        num, den = form
        ok = (num, den) == want[nm]
        ck.ob(rule, "%s/%s" % (inst, nm), ok, "omega = <%s>/<%s>; minimiser is <%s>/<%s> with tmp = A*cor" % (
            ",".join(sorted(num)), ",".join(sorted(den)), ",".join(sorted(want[nm][0])), ",".join(sorted(want[nm][1]) * (2 if len(want[nm][1]) == 1 else 1))),
            view.fn.file, w.get("l"))
    for nm in sorted(set(table) - set(want) - {"Fixed"}):
        ck.incomplete(rule, "%s: step length assignment for the undocumented mode MultiGridAdaptCGC::%s" % (inst, nm))


# -------------------------------------------------------------------------------------------------
# the factory forwards every parameter
# -------------------------------------------------------------------------------------------------

def check_factory(ck, facts, cls, sc):
    """E1.factory-forwards: Solver::new_multigrid(hierarchy, cycle, top_level, crs_level) hands every one of its parameters to
    the MultiGrid constructor, each into the constructor parameter of its own name"""
    rule = "E1.factory-forwards"
    targs = cls[cls.index("<"):]
    facs = [f for f in facts.functions if f.tk != "pattern" and f.name == "new_multigrid" and targs[1:-1] in (f.full or "")]
    if not facs:
        if not any(f.tk != "pattern" and f.name == "new_multigrid" for f in facts.functions):
            ck.incomplete(rule, "no instantiation of Solver::new_multigrid found (driver tu/c09_multigrid.cpp)")
        return      # the factory is one function template: it is decided on the instantiation(s) the driver provides
    ctors = [f for f in facts.functions if f.tk != "pattern" and f.cls == cls and f.d.get("ctor")]
    for f in facs:
        view = FnView(norm_c08.Inliner(facts).inline(f))
        problems, desc = norm_c08.factory_forwarding(view, ctors)
        key = "%s::new_multigrid/%d" % (sc, len(f.params))
        unknown = [t for k, t in problems if k == "unknown"]
        definite = [t for k, t in problems if k != "unknown"]
        if unknown and not definite:
            ck.incomplete(rule, "%s: %s" % (key, unknown[0]))
            continue
        ck.ob(rule, key, not definite, "; ".join(definite) if definite else "every parameter (%s) is forwarded: %s" % (", ".join(p["n"] for p in f.params), desc), f.file, f.line)


# -------------------------------------------------------------------------------------------------
# which local operation a transfer event of the cycle reaches
# -------------------------------------------------------------------------------------------------

TRANSFER_BASE = {"rest": "rest", "rest_send": "rest", "prol": "prol", "prol_recv": "prol", "trunc": "trunc", "trunc_send": "trunc"}
TRANSFER_CLS_RE = re.compile(r"^FEAT::(LAFEM|Global)::Transfer<")


def check_transfer_chain(ck, tier, used_methods):
    """E1.transfer-method-chain: the transfer methods the cycle calls (rest / rest_send / prol / prol_recv) reach the local
    operation of the same kind in every branch of every transfer class a multigrid can be built on: a wrapper
    (Global::Transfer) calls, on its wrapped transfer object, only the method of the same kind (rest -> rest, rest_send ->
    rest, prol / prol_recv -> prol) and does so on every normal path; the local operator (LAFEM::Transfer) applies the
    matrix member named for that kind"""
    rule = "E1.transfer-method-chain"
    extra = ("-DC09_THOROUGH",) if tier == "thorough" else ()
    facts = featlib.extract("tu/c09_global_transfer.cpp", files=featlib.repo_path("kernel/(global|lafem)/transfer.hpp"), extra=extra)
    ck.tu(facts)
    for e in (facts.errors_in_repo() + facts.errors_outside_repo())[:3]:
        ck.incomplete(rule, "driver TU tu/c09_global_transfer.cpp does not compile: %s:%d %s" % (e["file"], e["line"], e["msg"][:200]))
    inl = norm_c08.Inliner(facts)
    classes = sorted({f.cls for f in facts.functions if f.tk != "pattern" and TRANSFER_CLS_RE.match(f.cls)})
    if not classes:
        ck.incomplete(rule, "no instantiation of LAFEM::Transfer / Global::Transfer found")
    for cls in classes:
        short = re.sub(r"FEAT::|, FEAT::LAFEM::VectorMirror<[^>]*>", "", re.sub(r"unsigned long", "u64", cls))
        fns = {}
        for f in facts.functions:
            if f.tk != "pattern" and f.cls == cls:
                fns.setdefault(f.name, []).append(f)
        if not any(fns.get(m) for m in used_methods if m in TRANSFER_BASE):
            continue        # only implicitly instantiated (source type of a convert()): none of the cycle's methods exists here
        for m in sorted(used_methods):
            if m not in TRANSFER_BASE:
                continue
            cand = fns.get(m, [])
            if len(cand) != 1:
                ck.incomplete(rule, "%s::%s: %d definitions" % (short, m, len(cand)))
                continue
            f = inl.inline(cand[0], want=lambda call, cal: cal.name not in TRANSFER_BASE)
            if not (f.cfg and f.cfg.normal_exit_preds()):
                continue        # not callable on this class (XABORTM stub of the local operator)
            view = FnView(f)
            base = TRANSFER_BASE[m]
            key = "%s::%s" % (short, m)
            stm = [view.byid[e] for b in view.cfg.blocks.values() for e in b["el"] if e in view.byid]
            deleg = [n for n in stm if n.get("k") == "MCall" and TRANSFER_CLS_RE.match(n.get("ccls") or "") and n.get("n") in TRANSFER_BASE
                     and not (n.get("obj") is None or strip(n["obj"]).get("k") == "This")]
            own = [n for n in stm if n.get("k") == "MCall" and n.get("n") in TRANSFER_BASE and (n.get("obj") is None or strip(n["obj"]).get("k") == "This")]
            applies = [n for n in stm if n.get("k") == "MCall" and n.get("n") in ("apply", "apply_transposed") and mgmodel.is_this_member(view.value(n.get("obj") or {}))]
            if own:
                ck.incomplete(rule, "%s: forwards to its own method %s(), which is not followed" % (key, own[0].get("n")))
                continue
            if deleg:
                wrong = [n for n in deleg if n.get("n") != base]
                ids = {n["i"] for n in deleg if n.get("n") == base}
                esc = view.flow_from(None, stop=ids)[1] if ids else True
                problems = ["`%s` (line %s): the %s of the cycle is carried out with the %s operation of the wrapped transfer" % (render(n)[:70], n.get("l"), m, n.get("n")) for n in wrong]
                if esc and not wrong:
                    problems.append("a normal exit is reachable without calling %s() of the wrapped transfer" % base)
                ck.ob(rule, key, not problems, "; ".join(problems) if problems else "every branch calls %s() of the wrapped transfer (%d call sites)" % (base, len(deleg)),
                      f.file, (wrong or deleg)[0].get("l"))
            elif applies:
                names = sorted({strip(view.value(n["obj"])).get("n", "?") for n in applies})
                ok = all(base in nm for nm in names) and len(names) == 1
                ck.ob(rule, key, ok, "applies the matrix member %s%s" % (", ".join(names), "" if ok else ": the member named for `%s` is expected" % base), f.file, applies[0].get("l"))
            else:
                ck.incomplete(rule, "%s: neither a call of the wrapped transfer nor an application of a matrix member found" % key)
        check_transfer_clone(ck, short, fns, inl)
        check_transfer_memberwise(ck, short, fns, inl)
        if cls.startswith("FEAT::Global::Transfer<"):
            check_transfer_buffer(ck, short, fns, inl, used_methods)


def check_transfer_clone(ck, short, fns, inl):
    """E1.transfer-clone-mode: clone(mode) of a transfer class clones every operator member (prolongation, restriction,
    truncation matrix, wrapped transfer) with the requested mode: each clone() call on a member passes the mode parameter"""
    rule = "E1.transfer-clone-mode"
    for f0 in fns.get("clone", []):
        if not f0.params:
            continue
        f = inl.inline(f0, want=lambda call, cal: cal.name != "clone")
        view = FnView(f)
        mode_d = None
        for p_ in f.params:
            if "CloneMode" in f.type(p_["t"]):
                mode_d = p_["d"]
        if mode_d is None:
            continue
        key = "%s::clone" % short
        calls = [n for n in walk(f.body) if n.get("k") == "MCall" and n.get("n") == "clone" and (
            mgmodel.is_this_member(view.value(n.get("obj") or {})) or (n.get("a") and mgmodel.is_this_member(view.value(n["a"][0]))))]
        if not calls:
            ck.incomplete(rule, "%s: no clone() call on a member found" % key)
            continue
        for n in calls:
            src = view.value(n["obj"]) if mgmodel.is_this_member(view.value(n.get("obj") or {})) else view.value(n["a"][0])     # X.clone(mode) / t.X.clone(X, mode)
            mem = strip(src).get("n")
            args = [view.value(a) for a in n.get("a", []) if view.value(a) is not src]
            passes = any(a.get("k") == "Ref" and a.get("d") == mode_d for a in args)
            other = [render(a) for a in args if not (a.get("k") == "Ref" and a.get("d") == mode_d)]
            # a default argument shows up as the default value (an enumerator), not as the parameter
            ck.ob(rule, "%s/%s" % (key, mem), passes,
                  "%s.clone(%s) receives the requested clone mode" % (mem, f.params[0]["n"]) if passes else
                  "%s is cloned with %s instead of the requested mode `%s`, while its siblings honour the mode: a %s clone of the operator shares / copies this matrix differently from the others (after an in-place re-assembly the cycle uses matrices of different generations)" % (
                      mem, ", ".join(other) or "the default mode", f.params[0]["n"], "Shallow/Deep"), f.file, n.get("l"))


COPY_LIKE = ("convert", "operator=", "clone", "assign", "copy")


def check_transfer_memberwise(ck, short, fns, inl):
    """E1.transfer-clone-mode, member-wise agreement: a copy-like member (convert(other), operator=(other)) of a transfer class
    defines each operator member from the same member of the source.  Only same-typed sibling members are compared (the
    prolongation / restriction / truncation matrices): a member defined from a *different* sibling (`_mat_rest = _mat_prol.transpose()`,
    `_mat_rest.convert(other.get_mat_prol())`) makes the copy differ from its source whenever the siblings are independent."""
    rule = "E1.transfer-clone-mode"
    for name in ("convert", "operator="):
        for f in fns.get(name, []):
            if f.body is None:
                continue
            others = {p_["d"] for p_ in f.params if TRANSFER_CLS_RE.match(re.sub(r"^const |\s*&+$", "", f.type(p_["t"])).strip())}
            if not others:
                continue
            view = FnView(f)

            def own_member(n):
                n = strip(n)
                return n.get("k") == "Member" and n.get("field") and strip(n.get("b") or {}).get("k") == "This"

            def side_member(n):
                """member name if n is <this or other>.member or a getter of it"""
                n = strip(n)
                if n.get("k") == "Member" and n.get("field"):
                    b = view.value(n.get("b") or {})
                    if b.get("k") == "This" or (b.get("k") == "Ref" and b.get("d") in others):
                        return n.get("n")
                if n.get("k") == "MCall" and not n.get("a"):
                    b = view.value(n.get("obj") or {"k": "This"})
                    if b.get("k") == "This" or (b.get("k") == "Ref" and b.get("d") in others):
                        cal = inl.bydecl.get(n.get("cdecl"))
                        e = norm_c08.Inliner.pure_expr(cal) if cal is not None and cal.body is not None and cal.body.get("k") == "Block" else None
                        if e is not None and own_member(e):
                            return strip(e).get("n")
                        if cal is None and (n.get("n") or "").startswith("get_"):
                            return "_" + n["n"][4:]
                return None

            def refs(e, depth=0):
                out = set()
                e = view.value(e)
                m = side_member(e)
                if m is not None:
                    return {m}
                for c in kids(e):
                    out |= refs(c, depth + 1)
                return out
            defs = []       # (member node, source expressions, statement)
            for n in walk(f.body):
                k = n.get("k")
                if k == "MCall" and n.get("n") in COPY_LIKE and n.get("obj") is not None and own_member(n["obj"]):
                    defs.append((strip(n["obj"]), n.get("a", []), n))
                elif k == "Assign" and n.get("op") == "=" and own_member(n["lhs"]):
                    defs.append((strip(n["lhs"]), [n["rhs"]], n))
                elif k == "OpCall" and n.get("op") == "=" and len(n.get("a", [])) == 2 and own_member(n["a"][0]):
                    defs.append((strip(n["a"][0]), [n["a"][1]], n))
            tyof = {}
            for mem, _, _ in defs:
                tyof[mem["n"]] = f.type(mem["t"]) if mem.get("t") is not None else None
            for mem, srcs, st_ in defs:
                m = mem["n"]
                sibs = {x for x, t_ in tyof.items() if x != m and t_ is not None and t_ == tyof[m]}
                if not sibs:
                    continue        # no same-typed sibling: nothing to confuse it with
                r = set()
                for e in srcs:
                    r |= refs(e)
                wrong = sorted(r & sibs)
                ck.ob(rule, "%s::%s/%s" % (short, name, m), not wrong,
                      ("%s is defined from the sibling member %s (`%s`), not from the %s of the source: the copy differs from its source whenever the two operators are independent (restriction != transposed prolongation)" % (
                          m, ", ".join(wrong), render(st_)[:80], m)) if wrong else "%s is defined from the same member of the source" % m,
                      f.file, st_.get("l"))


def check_transfer_buffer(ck, short, fns, inl, used_methods):
    """E8.transfer-buffer: a member buffer that the transfer methods of the cycle hand to the wrapped transfer as the coarse-side
    operand is (re)created from the current operator on every path through compile()"""
    rule = "E8.transfer-buffer"
    bufs = set()
    for m in sorted(used_methods):
        for f0 in fns.get(m, []):
            f = inl.inline(f0, want=lambda call, cal: cal.name not in TRANSFER_BASE)
            view = FnView(f)
            for n in walk(f.body):
                if n.get("k") == "MCall" and TRANSFER_CLS_RE.match(n.get("ccls") or "") and n.get("n") in TRANSFER_BASE:
                    for a in n.get("a", []):
                        av = view.value(a)
                        if mgmodel.is_this_member(av):
                            bufs.add(strip(av)["n"])
    # every creation site of the buffer creates the vector that the consumers need: the coarse-side vector, i.e. the left
    # vector of the restriction / truncation matrix or the right vector of the prolongation matrix
    GOOD = {("rest", "l"), ("trunc", "l"), ("prol", "r")}
    cls0 = next((g.cls for gs in fns.values() for g in gs), None)
    for buf in sorted(bufs):
        sites = []
        for gs in fns.values():
            for g in gs:
                gv = FnView(g)
                for ini in (g.d.get("inits") or []):
                    if ini.get("member") == buf and ini.get("init") is not None:
                        sites.append((g, gv, ini["init"], ini.get("l")))
                for n in walk(g.body):
                    if n.get("k") in ("Assign", "OpCall") and n.get("op") == "=":
                        lhs, rhs = (n["lhs"], n["rhs"]) if n["k"] == "Assign" else ((n["a"][0], n["a"][1]) if len(n.get("a", [])) == 2 else (None, None))
                        if lhs is not None and mgmodel.is_this_member(gv.value(lhs), buf):
                            sites.append((g, gv, rhs, n.get("l")))
        seen_sites = {}
        for g, gv, expr, line in sites:
            def creations(n_, depth=0):
                out_ = []
                for x in walk(gv.value(n_)):
                    if x.get("k") == "MCall" and x.get("n") in ("create_vector_l", "create_vector_r"):
                        out_.append(x)
                    elif x.get("k") == "Ref" and x.get("dk") == "local" and gv.is_const_local(x["d"]) and depth < 4:
                        out_ += creations(gv.locals[x["d"]]["init"], depth + 1)       # named temporary moved into the member
                return out_
            created = creations(expr)
            if not created:
                continue        # moved / converted from another object's buffer
            c0 = created[0]
            ov = gv.value(c0.get("obj") or {})
            kind = None
            if ov.get("k") == "MCall" and ov.get("n", "").startswith("get_mat_"):
                kind = ov["n"][len("get_mat_"):]
            elif mgmodel.is_this_member(ov) and "_mat_" in ov.get("n", ""):
                kind = ov["n"].split("_mat_")[-1]
            side = c0["n"][-1]
            nm = "%s::%s" % (short, "constructor" if g.d.get("ctor") else g.name)
            skey = "%s/%s creation" % (nm, buf)
            seen_sites[skey] = seen_sites.get(skey, 0) + 1
            if seen_sites[skey] > 1:
                skey += "#%d" % seen_sites[skey]
            if kind is None:
                ck.incomplete(rule, "%s: %s is created from %s, which is not a matrix of the wrapped transfer" % (skey, buf, render(c0)[:60]))
                continue
            ck.ob(rule, skey, (kind, side) in GOOD,
                  "%s is created as the %s vector of the %s matrix (the coarse-side vector)" % (buf, "left" if side == "l" else "right", kind) if (kind, side) in GOOD else
                  "%s is created by `%s`: the %s vector of the %s matrix has the FINE dimension, but rest / prol use %s as the coarse-side operand (wrong size whenever fine and coarse dimensions differ)" % (
                      buf, render(c0)[:70], "left" if side == "l" else "right", kind, buf), g.file, line)
    comp = fns.get("compile", [])
    if not bufs:
        ck.incomplete(rule, "%s: no member buffer is handed to the wrapped transfer (the muxer branches vanished?)" % short)
        return
    if len(comp) != 1:
        ck.incomplete(rule, "%s: %d definitions of compile()" % (short, len(comp)))
        return
    f = inl.inline(comp[0])
    view = FnView(f)
    for buf in sorted(bufs):
        key = "%s::compile/%s" % (short, buf)
        writes = []
        for b in view.cfg.blocks.values():
            for e in b["el"]:
                n = view.byid.get(e)
                if n is None:
                    continue
                tgt = None
                if n.get("k") == "Assign" and n.get("op") == "=":
                    tgt = n["lhs"]
                elif n.get("k") == "OpCall" and n.get("op") == "=" and len(n.get("a", [])) == 2:
                    tgt = n["a"][0]
                elif n.get("k") == "MCall" and n.get("n") in ("clone", "convert", "resize", "assign") and not n.get("cconst"):
                    tgt = n.get("obj")
                if tgt is not None and mgmodel.is_this_member(view.value(tgt), buf):
                    writes.append(n)
        if not writes:
            opaque = [n for n in walk(f.body) if n.get("k") == "MCall" and (n.get("obj") is None or strip(n["obj"]).get("k") == "This") and not n.get("cconst")]
            if opaque:
                ck.incomplete(rule, "%s: %s is not assigned in compile(), but %s() is called, which is not modelled" % (key, buf, opaque[0].get("n")))
            else:
                ck.ob(rule, key, False, "%s is the coarse-side buffer of %s but compile() never (re)creates it: after the operator is re-assembled for another coarse dimension the buffer keeps its old size" % (
                    buf, "/".join(sorted(used_methods))), f.file, f.line)
            continue
        esc = view.flow_from(None, stop={n["i"] for n in writes})[1]
        if esc:
            # `if(buf.size() != <size taken from the current operator>) buf = ...;` re-creates the buffer whenever it does not
            # fit: the skipped path leaves a buffer of the right size (its content is scratch, every use overwrites it)
            fits = []
            for w in writes:
                q = view.parent.get(w.get("i"))
                child = w
                while q is not None:
                    if q.get("k") == "If" and q.get("then") is not None and child.get("i") in {x.get("i") for x in walk(q["then"])} and q.get("else") is None:
                        c = view.value(q.get("c") or {})
                        neg = False
                        while c.get("k") == "Un" and c.get("op") == "!":
                            neg = not neg
                            c = view.value(c["e"])
                        if c.get("k") == "Bin" and ((c.get("op") == "!=" and not neg) or (c.get("op") == "==" and neg)):
                            for x, y in ((c["lhs"], c["rhs"]), (c["rhs"], c["lhs"])):
                                xv, yv = view.value(x), view.value(y)
                                if xv.get("k") == "MCall" and xv.get("n") == "size" and mgmodel.is_this_member(view.value(xv.get("obj") or {}), buf) and \
                                        any(mgmodel.is_this_member(z) and z.get("n") != buf for z in walk(yv) if z.get("k") == "Member"):
                                    fits.append(q)
                    child, q = q, view.parent.get(q.get("i"))
            if fits:
                f2 = norm_c08.without_skip_edges(f, view, {q["i"] for q in fits})
                v2 = FnView(f2)
                esc = v2.flow_from(None, stop={n["i"] for n in writes})[1]
        ck.ob(rule, key, not esc,
              "%s is (re)created on every path through compile()" % buf if not esc else
              "%s is (re)created only on some paths of compile() (line %s is conditional): a transfer that is compiled again after its matrices were replaced keeps the buffer of the first coarse dimension, and the muxer branches of %s work on a vector of the wrong size" % (
                  buf, writes[0].get("l"), "/".join(sorted(used_methods))), f.file, writes[0].get("l"))


# -------------------------------------------------------------------------------------------------
# members that cache a value derived from configuration fields
# -------------------------------------------------------------------------------------------------

def member_writes(view):
    """[(member name, rhs node or None, statement node)] of the assignments to members of *this in a function
    (constructor initialisers included)"""
    out = []
    for ini in (view.fn.d.get("inits") or []):
        if ini.get("member"):
            out.append((ini["member"], ini.get("init"), ini))
    for n in walk(view.fn.body):
        if n.get("k") == "Assign" and mgmodel.is_this_member(n["lhs"]):
            out.append((strip(n["lhs"])["n"], n["rhs"], n))
        elif n.get("k") == "OpCall" and n.get("op") == "=" and len(n.get("a", [])) == 2 and mgmodel.is_this_member(n["a"][0]):
            out.append((strip(n["a"][0])["n"], n["a"][1], n))
        elif n.get("k") == "Un" and n.get("op") in ("++", "--") and mgmodel.is_this_member(n["e"]):
            out.append((strip(n["e"])["n"], None, n))
    return out


def mentions_member(view, node, names, depth=0):
    """this-members among `names` that the expression reads, through never-written locals"""
    found = set()
    for x in walk(node or {}):
        if x.get("k") == "Member" and mgmodel.is_this_member(x) and x.get("n") in names:
            found.add(x["n"])
        elif x.get("k") == "Ref" and x.get("dk") == "local" and view.is_const_local(x["d"]) and depth < 6:
            found |= mentions_member(view, view.locals[x["d"]]["init"], names, depth + 1)
    return found


def config_cache_model(facts, cls, inl):
    """-> (all member functions, setters {function: {field: [write stmt]}}, derived {member: [(function, view, rhs, stmt)]},
    set of members read by apply() and the functions it reaches).
    A *configuration field* is a member that a non-constructor member function assigns from one of its parameters
    (set_levels, set_cycle, ...); a *derived member* is another member assigned, anywhere in the class, from an expression that
    reads a configuration field."""
    fns = [f for f in facts.functions if f.tk != "pattern" and f.cls == cls and f.body is not None]
    views = {id(f): FnView(inl.inline(f)) for f in fns}
    byname = {}
    for f in fns:
        byname.setdefault(f.name, []).append(f)
    # members read on the way through apply()
    reach, todo = set(), [f for f in fns if f.name == "apply"]
    while todo:
        f = todo.pop()
        if id(f) in reach:
            continue
        reach.add(id(f))
        for n in walk(f.body):
            if n.get("k") == "MCall" and (n.get("obj") is None or strip(n["obj"]).get("k") == "This"):
                todo += byname.get(n.get("n"), [])
    read = set()
    for f in fns:
        if id(f) in reach:
            written = {id(strip(st["lhs"])) for _, _, st in member_writes(views[id(f)]) if st.get("k") == "Assign" and st.get("op") == "="}
            for x in walk(f.body):
                if x.get("k") == "Member" and mgmodel.is_this_member(x) and id(x) not in written:
                    read.add(x["n"])
    setters = {}
    for f in fns:
        if f.d.get("ctor") or f.d.get("dtor"):
            continue
        v = views[id(f)]
        pds = {p["d"] for p in f.params}
        for m, rhs, st in member_writes(v):
            if rhs is not None and any(x.get("k") == "Ref" and x.get("d") in pds for x in walk(v.value(rhs))) or \
                    (rhs is not None and any(x.get("k") == "Ref" and x.get("dk") == "local" and v.is_const_local(x["d"]) and
                                              any(y.get("k") == "Ref" and y.get("d") in pds for y in walk(v.locals[x["d"]]["init"])) for x in walk(rhs))):
                setters.setdefault(id(f), (f, {}))[1].setdefault(m, []).append(st)
    fields = {m for f, d in setters.values() for m in d}
    derived = {}
    for f in fns:
        v = views[id(f)]
        for m, rhs, st in member_writes(v):
            if m in fields or rhs is None:
                continue
            src = mentions_member(v, rhs, fields)
            if src:
                derived.setdefault(m, []).append((f, v, rhs, st, src))
    return fns, views, setters, derived, read


def check_config_cache(ck, facts, cls, sc, inl):
    """E8.config-cache: every member that caches a value computed from a configuration field (and that apply() reads) is
    recomputed, on every path, by every function that modifies that field"""
    rule = "E8.config-cache"
    fns, views, setters, derived, read = config_cache_model(facts, cls, inl)
    if not setters:
        ck.incomplete(rule, "%s: no member function assigns a member from its parameters (set_levels / set_cycle / set_adapt_cgc vanished?)" % sc)
        return {}
    for fid, (f, fields) in sorted(setters.items(), key=lambda kv: kv[1][0].name):
        v = views[fid]
        for fld, writes in sorted(fields.items()):
            key = "%s::%s/%s" % (sc, f.name, fld)
            deps = sorted(m for m, defs in derived.items() if m in read and any(fld in d[4] for d in defs))
            if not deps:
                ck.ob(rule, key, True, "%s is not cached: no member read by apply() is computed from it (the cycle functions read %s itself)" % (fld, fld),
                      f.file, writes[0].get("l"))
                continue
            problems = []
            for m in deps:
                own = [st for mm, rhs, st in member_writes(v) if mm == m]
                stop = {st.get("i") for st in own if st.get("i") is not None}
                bad = [w for w in writes if w.get("i") is not None and (not stop or v.flow_from(w["i"], stop=stop)[1])]
                if bad:
                    d0 = sorted([d for d in derived[m] if fld in d[4]], key=lambda d: bool(d[0].d.get("ctor")))[0]
                    opaque = [n for n in walk(v.fn.body) if n.get("k") == "MCall" and (n.get("obj") is None or strip(n["obj"]).get("k") == "This") and not n.get("cconst")]
                    if opaque:
                        ck.incomplete(rule, "%s: %s is computed from %s in %s() and not reassigned here, but %s() is called, which is not modelled" % (key, m, fld, d0[0].name, opaque[0].get("n")))
                        problems = None
                        break
                    problems.append("%s() changes %s but not %s, which %s() computes from it (`%s = %s`) and which the cycle functions read: after %s() on an initialised object the cycle runs with the stale %s" % (
                        f.name, fld, m, d0[0].name, m, render(d0[2])[:60], f.name, m))
            if problems is None:
                continue
            ck.ob(rule, key, not problems, "; ".join(problems) if problems else "every member computed from %s (%s) is reassigned on every path after %s changes" % (fld, ", ".join(deps), fld),
                  f.file, writes[0].get("l"))
    # what a derived member denotes (for the level analysis): its unique non-constructor definition
    out = {}
    for m, defs in derived.items():
        nc = [d for d in defs if not d[0].d.get("ctor")]
        forms = {MGView(d[1].fn).level(d[2]) for d in nc}
        if nc and len(forms) == 1 and None not in forms:
            out[m] = (nc[0][1], nc[0][2], nc[0][0])       # all (non-constructor) definitions agree on what is cached
    return out


# -------------------------------------------------------------------------------------------------

def run(tier):
    ck = Check("C09", tier)
    ck.rule("E14.cycle-shape", "the language of helper calls rest(level,flag) coarse prol(level,flag) peak(level) on the normal paths of _apply_cycle_v/_f/_w equals the documented cycle (V: rest(top,T) coarse prol(top,T); F: rest(top,T) (coarse prol(p,F) peak(p) rest(p,F))* coarse prol(top,T); W: rest(top,T) coarse (prol(p,F) peak(p) rest(p,F) coarse)* prol(top,T)), the peak level p is one variable not modified inside a triple; breaks for any hierarchy of >= 3 levels (wrong smoothing pattern, still convergent)", 3)
    ck.rule("E14.level-range", "level loops have the documented ranges: _apply_rest i = cur_lvl .. last-1 ascending, _apply_prol i = last-1 .. cur_lvl descending, F-cycle peaks p = last-1 .. top+1 descending, W-cycle 2^(last-top) coarse solves; breaks for hierarchies where the skipped/extra level exists", 4)
    ck.rule("E13.cycle-dispatch", "apply() calls _apply_cycle_v/f/w exactly under case MultiGridCycle::V/F/W; breaks for the swapped cycle types", 3)
    ck.rule("E7.hand-over", "vec_def is copied into the top-level rhs before every cycle call, the top-level solution is copied into vec_cor on every normal exit after the cycle, vec_def is const; breaks for every input", 3)
    ck.rule("E1.level-roles", "every call on level objects (matrix, filter, transfer, smoother, level vectors) uses operands of the right level and role: def := rhs - A sol, rest(def@l -> rhs@l+1), prol(sol@l+1 -> cor@l), filter_def on dual and filter_cor on primal vectors with the filter of the vector's own level, pre-smoother (sol,rhs), post/peak smoother (cor,def); breaks for every non-trivial hierarchy / non-trivial filter", 35)
    ck.rule("E1.level-setup-roles", "the object handed to MultiGridHierarchy::push_level as pre-/post-/peak-smoother, coarse solver, matrix, filter or transfer reaches the getter of the same role: push_level argument role == MultiGridLevelStd constructor parameter role at the same position (forwarding through make_shared/new is positional), constructor parameter role == initialised member role, member role == getter role (roles from the identifier tokens pre/post/peak/coarse|crs/matrix/filter/transfer|trans); breaks whenever post- and peak-smoother (or any two same-typed arguments) are different objects or one of them is null", 27)
    ck.rule("E7.solver-registration", "producer/consumer agreement between solver registration and use: for every getter kind (pre, post, peak smoother, coarse solver) whose solver some _apply_* helper applies, MultiGridHierarchy::LevelInfo::init_symbolic registers that getter's solver in unique_solvers on every path (not conditional on the level's position), and LevelInfo::init_symbolic/init_numeric/done_numeric/done_symbolic each forward the same call to every registered solver; breaks for level sub-ranges whose coarse level is a refined level with its own coarse solver (never initialised, then applied)", 8)
    ck.rule("E8.def-fresh", "def == rhs - A*sol (fresh) at every smoother input, restriction and adaptive step-length product, for every cycle, level region, smoother presence combination and coarse-grid-correction mode; breaks when a smoother or the restriction sees a defect of an older iterate", 14)
    ck.rule("E7.filter-def", "every freshly computed defect is filter_def-ed before it is smoothed or restricted; breaks for any filter that is not the identity", 14)
    ck.rule("E7.filter-cor", "every prolongated correction (and the identity coarse solution) is filter_cor-ed before it is added to / used as a solution; breaks for any filter that is not the identity", 11)
    ck.rule("E7.filter-rhs", "every restricted right-hand side is filter_def-ed with the coarse level's filter before that level is processed; breaks for any filter that is not the identity", 6)
    ck.rule("E8.sol-epoch", "a level solution is started afresh (format / solve from rhs) exactly when its rhs is new, and corrections are only added to / prolongated from a solution of the current rhs; breaks on repeated application and in the F/W inner peaks", 36)
    ck.rule("E7.peak-fallback", "_apply_smooth_peak applies the peak smoother if given, otherwise the pre-smoother then the post-smoother, each if given, each only after its presence was tested", 9)
    ck.rule("E2.w-counters", "every subscript of the W-cycle peak-counter array _counters (search, inner reset, increment, sanity check) is an absolute level index within [top_level, last_level], and the reset at cycle entry covers, as symbolic intervals in top_level/last_level, every counter any later statement can touch; breaks on the second W-cycle application with top_level > 0 (stale counters: wrong peak order / sanity abort)", 5)
    ck.rule("E1.factory-forwards", "the factory Solver::new_multigrid(hierarchy, cycle, top_level, crs_level) uses every one of its parameters and hands each, positionally, to the MultiGrid constructor parameter of its own name (a dropped trailing argument is silently replaced by the constructor's default: a multigrid requested for the level range [top, crs] runs on [top, coarsest]); breaks for every explicit crs_level other than the coarsest level", 1)
    ck.rule("E1.transfer-clone-mode", "clone(mode) of a transfer operator class (LAFEM::Transfer, Global::Transfer) passes the requested clone mode to the clone() of every operator member (prolongation, restriction and truncation matrix; the wrapped transfer): siblings cloned with different modes share / copy their arrays differently, so after an in-place re-assembly of the original a Shallow clone restricts with the old R and prolongates with the new P; breaks for every non-default clone mode followed by a value update", 4)
    ck.rule("E8.transfer-buffer", "Global::Transfer: the member buffer that rest / prol / rest_send / prol_recv hand to the wrapped transfer as coarse-side operand on the muxer branches is (re)created from the current operator on every path through compile(); breaks when a transfer object is re-assembled for another coarse dimension and compiled again (stale buffer size on processes whose coarse muxer is child); every creation site of the buffer (constructors, compile) creates the coarse-side vector: the left vector of the restriction / truncation matrix or the right vector of the prolongation matrix", 3)
    ck.rule("E1.transfer-method-chain", "the transfer methods the cycle calls on a level's transfer operator (rest / rest_send / prol / prol_recv, taken from the events of _apply_rest / _apply_prol) reach the local operation of the same kind in every branch of every transfer class a multigrid can be built on: Global::Transfer calls only rest() resp. prol() of the wrapped transfer, on every normal path (direct branch, muxer parent/child branch, ghost send/recv twins), and LAFEM::Transfer applies the matrix member named for the kind; breaks on processes whose coarse muxer is child and parent (the defect is restricted with the truncation matrix: still convergent, different linear map)", 6)
    ck.rule("E8.config-cache", "a member of MultiGrid that caches a value computed from a configuration field (a member that a non-constructor member function assigns from its parameters: _top_level, _crs_level, _cycle, _adapt_cgc) and that apply() reads is reassigned, on every path, by every function that modifies that field — or the value is not cached at all; breaks for set_levels()/set_cycle()/... on an initialised object followed by apply() (the cycle runs with the stale cached value)", 4)
    ck.rule("E6.adapt-omega", "adaptive coarse grid correction: MinEnergy w = <def,cor>/<A cor,cor>, MinDefect w = <def,A cor>/<A cor,A cor> with tmp = A*cor of the same level", 2)

    extra = ("-DC09_THOROUGH",) if tier == "thorough" else ()
    facts = featlib.extract("tu/c09_multigrid.cpp", files=featlib.repo_path(MG), extra=extra)
    ck.tu(facts)
    bad = facts.errors_in_repo() + facts.errors_outside_repo()
    for e in bad[:3]:
        ck.incomplete("E14.cycle-shape", "driver TU tu/c09_multigrid.cpp does not compile: %s:%d %s" % (e["file"], e["line"], e["msg"]))
    classes = mg_functions(facts, r"^FEAT::Solver::MultiGrid<")
    inl = norm_c08.Inliner(facts)
    modelled_decls = {f.d.get("decl") for fns_ in classes.values() for n_, f in fns_.items() if n_ in mgmodel.HELPERS}
    not_modelled = lambda call, cal: (cal.name not in mgmodel.HELPERS or cal.d.get("decl") not in modelled_decls) and cal.name not in ("apply", "name")
    if not classes:
        ck.incomplete("E14.cycle-shape", "no instantiation of Solver::MultiGrid found")
    need = list(CYCLES) + ["_apply_rest", "_apply_prol", "_apply_smooth_peak", "_apply_smooth_def", "_apply_coarse", "apply"]
    for cls in sorted(classes):
        fns = classes[cls]
        sc = short_cls(cls)
        missing = [n for n in need if n not in fns]
        if missing:
            ck.incomplete("E14.cycle-shape", "%s: anchored functions vanished: %s" % (sc, ", ".join(missing)))
            continue
        check_factory(ck, facts, cls, sc)
        # 0. cached configuration (decides E8.config-cache; tells the level analysis what a caching member denotes)
        dmap = check_config_cache(ck, facts, cls, sc, inl)
        derived = {m: (MGView(dv.fn), dexpr) for m, (dv, dexpr, df) in dmap.items()}
        # private helpers that are not part of the event model (extracted blocks) are inlined: body and CFG
        # ... and a range-for over a small local table is the sequence of its iterations
        views = {n: MGView(norm_c08.unroll_const_range_for(inl.inline(fns[n], want=not_modelled)), derived=derived) for n in need}
        events = {}
        for n, v in views.items():
            evs = []
            for b in sorted(v.cfg.blocks):
                for e in v.cfg.blocks[b]["el"]:
                    ev = classify(v, e)
                    if ev:
                        evs.append((e, ev))
            events[n] = evs
        # 1. shapes and ranges
        pvars = {}
        for fnm, cyc in CYCLES.items():
            pvars[fnm] = check_shape(ck, views[fnm], cyc, "%s::%s" % (sc, fnm))
        for fnm, key in (("_apply_cycle_f", "F"), ("_apply_cycle_w", "W")):
            v = views[fnm]
            inner = [e for e, ev in events[fnm] if ev["kind"] == "helper" and ev.get("level") and ev["level"][0] == "v"]
            if not inner:
                ck.incomplete("E14.level-range", "%s::%s: no inner peak-level events" % (sc, fnm))
                continue
            if key == "F":
                sh = check_level_loop(ck, v, "%s::%s" % (sc, fnm), inner, ("last", -1), ">", ("top", 0), -1,
                                      "for(p = last-1; p > top; --p) — every intermediate level in ascending order", evlist=events[fnm])
                if sh is not None and sh["d"] != pvars[fnm]:
                    ck.ob("E14.level-range", "%s::%s/loop-var" % (sc, fnm), False, "the peak level passed to the helpers is not the loop variable", v.fn.file, v.fn.line)
            else:
                check_w_count(ck, v, "%s::%s" % (sc, fnm), inner)
                check_w_counters(ck, v, "%s::%s" % (sc, fnm), inner)
        for fnm in ("_apply_rest", "_apply_prol"):
            v = views[fnm]
            lev = [e for e, ev in events[fnm] if ev["kind"] not in ("helper", "unknown")]
            p0 = v.fn.params[0]["d"] if v.fn.params else None
            if fnm == "_apply_rest":
                check_level_loop(ck, v, "%s::%s" % (sc, fnm), lev, ("v", p0, 0), "<", ("last", 0), +1, "for(i = cur_lvl; i < last; ++i)", evlist=events[fnm])
            else:
                sh = check_level_loop(ck, v, "%s::%s" % (sc, fnm), lev, ("last", 0), ">", ("v", p0, 0), -1, "for(i = last; i > cur_lvl;) { --i; ... }", want_where="body", evlist=events[fnm])
                if sh is not None and sh["step"] is not None:
                    w = sh["step"][2]
                    if sh["step"][1] != "inc":
                        # decrement first in the body: level objects captured in locals must be captured after the decrement
                        caps = [v.decl_stmt[d] for d, var in v.locals.items() if var.get("init") is not None and d in v.decl_stmt
                                and any(x.get("k") == "Ref" and x.get("d") == sh["d"] for x in walk(var["init"]))]
                        late = [e for e in lev + caps if not v.cfg.stmt_dominates(w["i"], e)]
                        if late:
                            ck.ob("E14.level-range", "%s::%s/decrement-first" % (sc, fnm), False,
                                  "the level index is not decremented before the level objects of the iteration are used (line %s)" % v.byid[late[0]].get("l"), v.fn.file, w.get("l"))
                    elif sh["cond"][0] == ">=":
                        # for(i = last-1; i >= cur_lvl; --i) over an unsigned index never terminates for cur_lvl == 0
                        ck.ob("E14.level-range", "%s::%s/decrement-first" % (sc, fnm), False,
                              "descending loop `%s >= %s; --%s` over the unsigned level index: the condition cannot become false for %s == 0 (decrement first in the body, or loop over index + 1 with `>`)" % (
                                  sh["var"]["n"], render(sh["cond"][1]), sh["var"]["n"], render(sh["cond"][1])), v.fn.file, w.get("l"))
        # 2. apply(): dispatch, hand-over
        check_apply(ck, views["apply"], "%s::apply" % sc)
        # 3. roles
        for fnm in ("_apply_rest", "_apply_prol", "_apply_smooth_peak", "_apply_smooth_def", "_apply_coarse", "apply"):
            check_roles(ck, views[fnm], "%s::%s" % (sc, fnm), events[fnm])
        # 4. peak fallback, adaptive omega
        check_peak_fallback(ck, views["_apply_smooth_peak"], "%s::_apply_smooth_peak" % sc)
        check_adapt_omega(ck, views["_apply_prol"], "%s::_apply_prol" % sc)
        # 4b. level set-up roles
        hier_cls = cls.replace("FEAT::Solver::MultiGrid<", "FEAT::Solver::MultiGridHierarchy<", 1)
        check_level_setup(ck, facts, hier_cls, None, sc)
        used = set()
        for fnm in ("_apply_rest", "_apply_prol", "_apply_coarse", "_apply_smooth_peak"):
            for e, ev in events[fnm]:
                if ev["kind"] == "smooth" and ev.get("smoother") and ev["smoother"][0] == "smo":
                    used.add(ev["smoother"][2])
                if ev["kind"] == "helper" and ev.get("smoother") and ev["smoother"][0] == "smo":
                    used.add(ev["smoother"][2])
        check_solver_registration(ck, facts, hier_cls, used, sc)
        # 5. freshness typestate (summaries of the helpers composed along the cycle CFGs)
        mgflow.check_flow(ck, sc, views, events, pvars)

    if inl.log:
        ck.note("helpers inlined into the anchored functions (body + CFG, lib/norm_c08.py): %s" % ", ".join(sorted({"%s <- %s" % (a.rsplit("::", 1)[-1], b) for a, b, l, m in inl.log})))
    # which transfer methods do the cycle helpers call?
    used_tm = set()
    for cls in sorted(classes):
        for fnm in ("_apply_rest", "_apply_prol"):
            f0 = classes[cls].get(fnm)
            if f0 is None:
                continue
            v0 = MGView(inl.inline(f0, want=not_modelled))
            for b in v0.cfg.blocks.values():
                for e in b["el"]:
                    ev = classify(v0, e)
                    if ev and ev["kind"] in TRANSFER_BASE:
                        used_tm.add(ev["kind"])
    if used_tm:
        check_transfer_chain(ck, tier, used_tm)
    else:
        ck.incomplete("E1.transfer-method-chain", "no transfer events found in _apply_rest / _apply_prol")
    ck.assume("level objects are well formed: get_system_matrix/filter/transfer/smoothers of level l belong to level l; smoothers and coarse solvers apply their own correction filter (SolverBase contract, property C08)")
    ck.assume("freshness/typestate clauses are decided for processes that own the coarse level (no ghost transfers); on the ghost (MPI) branches only operand roles are decided")
    ck.assume("the defect handed to apply() is already filtered (caller's contract)")
    return ck.finish(
        "Resolved CFGs of Solver::MultiGrid (instantiated over LAFEM CSR%s matrices/filters/transfers by tu/c09_multigrid.cpp). "
        "Decided: cycle shape as regular-language equality with the documented V/F/W cycles; level-loop ranges; enum dispatch; result hand-over; "
        "operand level/role of every call on level objects; defect freshness, filter placement and solution epochs by per-helper dataflow summaries "
        "(symbolic in the level, all smoother-presence combinations, fixed and adaptive coarse grid correction) composed along the cycle CFGs with the "
        "peak level arbitrary; peak-smoother fallback; adaptive step-length formulas. "
        "NOT decided: that the W-cycle counter walk yields the ruler order of peak levels (data-dependent loop), ghost/MPI branches beyond operand roles, "
        "equality with a reference implementation as a linear map, convergence rates." % ("/BCSR, double/float" if tier == "thorough" else ", double"))
